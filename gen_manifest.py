#!/usr/bin/env python3
"""Generates MANIFEST.json from the table below (kept in one place so the
manifest is always valid and current)."""
import json, subprocess

HOOK_COMMITS = ["00a6da5", "138be5b", "b138b83", "c88384f", "12acee3"]

CHECKS = {
 "C01": dict(engine="seqx", technique="explicit-state BFS over operation histories on the real store vs reference model (bounded exhaustive)",
   text="All Raft-legal histories up to the depth bound over a state-relative alphabet (22 symbols) are executed on the real store under 8 chunk configurations; every call result, log_state(), every read range and the chunk list are compared with a plain reference log, and API observations are compared across configurations. Beyond the depth bound: periodic histories (every pattern of 1-2, thorough 3, symbols repeated up to 12 times) and scale phases (bulk appends of 40/130 entries: dozens of rotations and removals). Exhaustive within the bound; the bound and every cap are reported.",
   note="eager worker (wait_worker_idle after each op); types fixed to VT; reference model trusted; depth bound", ref="5 C01"),
 "C02": dict(engine="seqx", technique="explicit-state BFS over histories with restart transitions (bounded exhaustive)",
   text="Same search with Reopen(cfg') as a transition at every position (flush, ack, idle, drop, open under different chunk/cache/read-buffer limits): state, every entry, dump text and file set must be unchanged by the restart, a standalone Dump of the closed directory must write the same text as the live store's dump, and the search continues from the restarted store so later writes are checked against the model too.",
   note="eager worker; restart configurations are a fixed list of 5; depth bound", ref="5 C02"),
 "C06": dict(engine="seqx", technique="explicit-state BFS with every specification-refused call at every reached state",
   text="At every state reached by legal histories every member of the refused alphabet (15+ symbols generated from the state, incl. append batches whose first, second or third entry is refused, also on an empty log) is issued; the call must return Err and state, entries, cache statistics, on-disk size and chunk list must be identical before/after (for a batch with accepted leading entries: identical to the model holding exactly those); the search continues with legal operations against a model that never saw the call, and every history ends with flush + restart.",
   note="eager worker; depth bound; refused alphabet is structured, not all u64 values", ref="5 C06"),
 "C11": dict(engine="seqx", technique="explicit-state BFS; journal dump/bytes vs model-predicted layout; enumerated file-name offsets",
   text="For every explored history and chunk limits incl. 0 and 1 and both limits set at once: after flush+idle the dump equals the predicted record list per file (one record per accepted write + head snapshots), file names = global offsets, files abut, file bytes equal an independent hand-written encoder's output, each write's returned Segment is where its record is, rotation happens exactly at the limit, on_disk_size = sum of file sizes. File-name codec round-trips for a structured set of ~500 offsets.",
   note="eager worker; independent encoder enc.rs trusted; offsets by representatives", ref="5 C11"),
 "C15": dict(engine="seqx", technique="explicit-state BFS under 12 cache-limit configurations with the resident-set accessor as oracle",
   text="After every operation of every explored history (legal + refused calls) stat() counters must equal count/sum of the resident set read through the verif-hooks accessor; after an accepted append any over-limit cache may only hold entries above the boundary in force at the write; after idle + drain no resident entry is at or below the boundary. Worker-timing dimension: all caller/worker schedules (schedx). Restart dimension: clean and torn images re-opened under small caches; after flush + idle + drain no entry whose record lies in a closed (written, synced) chunk may stay resident.",
   note="eager worker here; 'after a write' is read as 'after an append' (the only write that consults the cache); lazily unevicted entries after other writes are counted in the evidence, not alarmed", ref="5 C15"),
 "C16": dict(engine="seqx", technique="explicit-state BFS + exhaustive argument grid at every state (catch_unwind, overflow checks on)",
   text="At every state reached by the core alphabet up to the depth bound, every public operation is called with every argument of a boundary grid (indexes around 0/purged/first/last/u64::MAX, all ordered and inverted read ranges, terms around current/0/u64::MAX), each write probe on its own fresh replay; update_state with every `last` of the grid followed by every operation, flush and restart; RaftLog::open / Dump on unusual directories (missing, a file, stray and chunk-named entries, chunk names high in the offset range); any panic is a violation. Built with overflow-checks and debug-assertions.",
   note="grid by boundary representatives; depth bound", ref="5 C16"),
}

CHECKS["C12"] = dict(engine="codecx", technique="bounded-exhaustive enumeration of codec inputs (structured records, all prefixes, all single-byte mutations, short/structured arbitrary bytes)",
   text="Every record of a structured space (6 kinds, all Some/None combinations, boundary integers, payloads to 64 KiB) is encoded by an independent encoder, decoded by the crate, re-encoded and compared, with consumed length checked against trailing garbage; every proper prefix must be UnexpectedEof; every single-byte substitution and every enumerated arbitrary input must not panic and, if accepted, must re-encode to exactly the consumed bytes.",
   note="inputs outside the enumerated spaces by representatives; VT types; overflow checks on", ref="5 C12")

CHECKS["C09"] = dict(engine="imagex", technique="exhaustive single-byte mutation / chunk-removal enumeration of real on-disk images, recovered by the real open()",
   text="For every seed image (final directory of a real run, chosen for layout diversity) every byte of every chunk file is replaced by each value of the replacement set (quick: 8 bit flips + 00/FF/+1; thorough: all 255) and opened with the real RaftLog::open: Err, or Ok with the written state, never a panic; a refused open must leave every non-newest file byte-identical; every middle chunk removed in turn (also combined with an empty/torn newest chunk); recovery is repeated under small read buffers (reads straddling buffer boundaries) for one bit flip per byte; under an open store with an empty cache every byte of every live entry's record in a closed chunk is corrupted and read back.",
   note="seed images from bounded histories; known findings F10a/F10b classified by an independent decoder", ref="5 C09")
CHECKS["C10"] = dict(engine="imagex", technique="exhaustive cut-position / zero-tail enumeration of real on-disk images, recovered by the real open()",
   text="For every seed image the newest chunk is cut at every byte position 0..=len and given zero tails from every record boundary with lengths 1..64, 1023-1025, 33 KiB, 65535-65537, 128 KiB+5, under both values of truncate_incomplete_record, every cut also under small read buffers; the recovered state must be the one denoted by exactly the completely present records (reference model replay), the complete prefix must be preserved on disk, writes+flush+another restart must work; with truncation disabled damaged tails must be refused with files untouched.",
   note="seed images from bounded histories", ref="5 C10")
CHECKS["C13"] = dict(engine="lockx", technique="exhaustive command-sequence enumeration over 3 contender processes with a reference holder variable",
   text="Three contender processes (each may also attempt a second in-process instance) are driven through every sequence over {open store, open dump, drop} up to depth 5 (quick) / 7 (thorough) on a directory whose newest chunk has a torn tail (an opener that got past the lock would modify it), on one with a zero-length newest chunk (which recovery removes), and on one no store can open (missing middle chunk: a failed open must release the lock); an attempt must succeed iff nobody holds the directory, refused attempts must leave every chunk file byte-identical. Thread level: 2-3 contender threads (incl. writing ones) under the controlled scheduler, every libc call a scheduling point, ownership intervals derived from the flock calls.",
   note="kernel flock trusted; thread-level libc-call interleavings: fine level under the controlled scheduler", ref="5 C13")

SCHED_NOTE = "scheduling points = verif-hooks gates + interposed libc file-system calls (sufficient because the crate has no unsafe and shares only channel, cache lock, done_seq, callbacks and files); sequential consistency; histories bounded in length; crash model as stated in DESIGN 3.5"
CHECKS["C03"] = dict(engine="schedx", technique="stateless DFS over all caller/worker schedules of the real code (controlled scheduler, sleep sets) x every crash image at every scheduler state, recovered by the real open()",
   text="For every history up to the length bound every schedule of the real caller thread and the real FlushWorker thread is executed under a controlled scheduler; at every scheduler state every post-crash image of the crash model (process crash incl. a write in flight; power loss cutting each file at/above its synced length or zero-filling from a record boundary) is materialised and opened with the real RaftLog::open; whenever it opens, its state and entries must equal the model after some prefix of the issued writes that includes every write issued before a flush whose callback had reported Ok. Also: crashes during recovery itself (second-level images from a traced recovery) and crashes after one injected I/O fault (EIO / EINTR / short write at any worker write or fdatasync).",
   note=SCHED_NOTE, ref="5 C03")
CHECKS["C05"] = dict(engine="schedx", technique="same exploration as C03; oracle: recovery returns Ok without panic and the recovered store accepts writes, flush, ack and another restart",
   text="Same schedules, crash points and crash images as C03; every image must open (no Err, no panic), then vote+append+flush must be acknowledged, reads must match and a further restart must succeed. Refusals caused by an unfinished rotation (F5) are a recorded known finding whose class is computed from the image alone; any other refusal or panic is a violation.",
   note=SCHED_NOTE, ref="5 C05")
CHECKS["C04"] = dict(engine="schedx", technique="stateless DFS over all schedules x deviation-bounded fault injection (EIO, EINTR, short write) at worker write/fdatasync; trace oracle at every callback",
   text="For every history and schedule, and for every placement of up to the fault bound of injected failures at the worker's write/fdatasync calls, the libc-level trace is checked at every callback: Ok implies every record (and head snapshot) journalled before that flush is written at its predicted place and covered by a later successful sync of that same file; callbacks fire at most once, exactly once without faults, in request order; absorbed deviations (EINTR, short write) must leave behaviour unchanged. Plus a long-queue probe (300 / 1100 write+flush pairs queued before the worker runs, one schedule) and write requests above 1 MiB.",
   note=SCHED_NOTE + "; a later successful fdatasync is taken to cover all bytes written before it", ref="5 C04")
CHECKS["C07"] = dict(engine="schedx", technique="stateless DFS over all schedules under small cache limits; every read compared with the reference model",
   text="Histories with reads (range reads, per-index reads and snapshot iteration) at arbitrary points are run under every schedule of caller and worker for cache limits incl. 0 items / 0 bytes; every read must return exactly the model's live entries without error however far the worker has got (buffered, queued, written, synced, evicted, drained). Plus: lock-window mode (reads scheduled while the worker holds the cache write lock); a reader harness (two reader threads + a drainer on a shared store, all interleavings with the worker, incl. entries above 64 KiB); snapshots taken early and iterated late; an eager-worker explicit-state phase over the full legal alphabet (batches, 40 000-byte entries) under small caches.",
   note=SCHED_NOTE + "; 2 reader threads", ref="5 C07")
CHECKS["C08"] = dict(engine="schedx", technique="stateless DFS over all schedules x fault injection x crash images; trace oracle at every unlink",
   text="At every unlink in every explored execution: the file stores no live entry (model), it is the oldest chunk file, and the durable remainder (each remaining file cut to its synced length, decoded independently) already contains the purge that made it obsolete, also when syncs fail; crash images around the unlinks satisfy the C03 oracle; after an effective purge + flush + idle every obsolete closed chunk is gone.",
   note=SCHED_NOTE, ref="5 C08")

CHECKS["C14"] = dict(engine="schedx", technique="stateless DFS over all schedules of two store instances on one directory (old instance's worker vs new instance's open, operations and worker)",
   text="For every first-instance history of the shape prefix; F; W*; [A...]; drop (rotation every 1-2 writes, so chunk tails and removals may be pending at drop), followed by open; purge; flush; wait; idle; read; append; flush; wait; drop on a second instance, every interleaving of the first worker's remaining steps with the second instance is explored: after drop returned no traced call of the old worker may change the directory; open must succeed and show a prefix of the writes that includes everything acknowledged; the new instance's flushes must be acknowledged Ok and its worker must stay alive. Variants: the first instance dropped by unwinding from a panic; a join that gives up (virtual clock); one EIO at any write/fdatasync/unlink of the first worker (drop must still return — a hang is a verdict — and the old worker must have quit by then).",
   note=SCHED_NOTE + "; second process replaced by a second instance in the same process (flock conflicts between file descriptions, so lock behaviour is the same)", ref="5 C14")

NOT_YET = {
 "C03": "engine schedx --crash not built yet (planned, DESIGN 4.3)",
 "C04": "engine schedx with fault injection not built yet (planned, DESIGN 4.2)",
 "C05": "engine schedx --crash not built yet (planned, DESIGN 4.3)",
 "C07": "engine schedx not built yet (planned, DESIGN 4.2)",
 "C08": "engine schedx not built yet (planned, DESIGN 4.2)",
 "C09": "engine imagex not built yet (planned, DESIGN 4.4)",
 "C10": "engine imagex not built yet (planned, DESIGN 4.4)",
 "C12": "engine codecx not built yet (planned, DESIGN 4.5)",
 "C13": "engine lockx not built yet (planned, DESIGN 4.6)",
 "C14": "engine schedx (two instances) not built yet (planned, DESIGN 4.2)",
}

def main():
    import importlib.util, os
    extra = {}
    p = os.path.join(os.path.dirname(__file__), "manifest_extra.json")
    if os.path.exists(p):
        extra = json.load(open(p))
    checks = []
    for pid, c in sorted(CHECKS.items()):
        checks.append({
            "property_id": pid,
            "quick_cmd": f"./check {pid} quick",
            "thorough_cmd": f"./check {pid} thorough",
            "evidence_file": f"/verif/evidence/{pid}.json",
            "replay_cmd_template": "./check replay {path}",
            "engine": c["engine"],
            "level_claimed": {"category": "model_checking", "text": c["text"], "design_ref": "DESIGN.md section " + c["ref"]},
            "level_note": c["note"],
            "technique": c["technique"],
        })
    m = {
        "version": 1,
        "setup_cmd": "cd /verif && ./check build && ./check selftest",
        "hooks": {
            "guard": "cargo feature verif-hooks (raft-log)",
            "enable": "the harness depends on raft-log = { path = \"/repo\", features = [\"verif-hooks\"] }; ./check rebuilds it from /repo's working tree",
            "baseline_off_cmd": "cd /repo && cargo test --workspace --no-fail-fast --offline",
            "source_commits": HOOK_COMMITS,
            "add_only": True,
        },
        "engines": [
            {"name": "seqx", "path": "harness/src/seqx.rs", "serves_properties": ["C01","C02","C06","C11","C15","C16"],
             "kind_free_text": "explicit-state breadth-first search over operation histories; every transition runs the real store; reference-model oracle"},
            {"name": "schedx", "path": "harness/src/schedx.rs (scheduler: sched.rs, interposition: interpose.rs, crash model: shadow.rs)", "serves_properties": ["C03","C04","C05","C07","C08","C14"],
             "kind_free_text": "stateless model checking of the real two-thread implementation: exhaustive schedule exploration with sleep sets, fault injection, crash-image enumeration"},
            {"name": "imagex", "path": "harness/src/imagex.rs", "serves_properties": ["C09","C10"],
             "kind_free_text": "exhaustive enumeration of damaged on-disk images recovered by the real RaftLog::open"},
            {"name": "lockx", "path": "harness/src/lockx.rs", "serves_properties": ["C13"],
             "kind_free_text": "exhaustive command-sequence enumeration over contender processes"},
            {"name": "codecx", "path": "harness/src/codecx.rs", "serves_properties": ["C12"],
             "kind_free_text": "bounded-exhaustive enumeration of the public record codec's input space"},
        ],
        "checks": checks,
        "not_applicable": [{"property_id": k, "reason": v} for k, v in sorted(NOT_YET.items()) if k not in CHECKS],
        "notes": "All checks: ./check <ID> <quick|thorough>; exit 0 held / 1 VIOLATION / 2 machinery failure. known_findings.json lists recorded and repaired defects. See DESIGN.md.",
    }
    json.dump(m, open(os.path.join(os.path.dirname(__file__), "MANIFEST.json"), "w"), indent=1)
    print("checks:", len(checks), "not_applicable:", len(m["not_applicable"]))

main()
