#!/bin/bash
# Runs every thorough check in sequence (used with `vp run`); prints a summary.
cd "$(dirname "$0")"
for p in "$@"; do
  START=$(date +%s)
  OUT=$(./check $p thorough 2>&1); RC=$?
  END=$(date +%s)
  echo "THOROUGH $p exit=$RC wall=$((END-START))s"
  echo "$OUT" | grep -E "VIOLATION|KNOWN-FINDING|MACHINERY|key=" | cut -c1-300
  python3 - <<PY
import json
try:
    e=json.load(open('evidence/$p.json')); c=e['coverage']
    print('  states',c.get('states'),'transitions',c.get('transitions'),'traces',c.get('traces_validated_against_impl'),'exhaustive',c.get('exhaustive'))
except Exception as ex: print('  no evidence',ex)
PY
done
