//! Shadow file system computed from a trace prefix, and enumeration of the
//! post-crash images the crash model allows.

use std::collections::BTreeMap;

use crate::codecx;
use crate::interpose::FsCall;
use crate::interpose::FsKind;
use crate::report::Fnv;

#[derive(Clone, Debug, Default, PartialEq, Eq)]
pub struct SFile {
    pub content: Vec<u8>,
    /// length covered by the last successful fdatasync/fsync issued after the
    /// bytes were written
    pub durable: usize,
}

#[derive(Clone, Debug, Default, PartialEq, Eq)]
pub struct ShadowFs {
    pub files: BTreeMap<String, SFile>,
}

impl ShadowFs {
    pub fn apply(&mut self, call: &FsCall, ret: i64) {
        match call.kind {
            FsKind::Create => {
                if ret >= 0 {
                    self.files.entry(call.name.clone()).or_default();
                }
            }
            FsKind::Write => {
                if ret > 0 {
                    if let Some(f) = self.files.get_mut(&call.name) {
                        let off = call.arg.max(0) as usize;
                        let n = ret as usize;
                        if f.content.len() < off + n {
                            f.content.resize(off + n, 0);
                        }
                        f.content[off..off + n].copy_from_slice(&call.data[..n]);
                    }
                }
            }
            FsKind::Fdatasync | FsKind::Fsync => {
                if ret == 0 {
                    if let Some(f) = self.files.get_mut(&call.name) {
                        f.durable = f.content.len();
                    }
                }
            }
            FsKind::Ftruncate => {
                if ret == 0 {
                    if let Some(f) = self.files.get_mut(&call.name) {
                        let n = call.arg.max(0) as usize;
                        f.content.resize(n, 0);
                        f.durable = f.durable.min(n);
                    }
                }
            }
            FsKind::Unlink => {
                if ret == 0 {
                    self.files.remove(&call.name);
                }
            }
            _ => {}
        }
    }

    pub fn hash(&self) -> u64 {
        let mut h = Fnv::new();
        for (n, f) in &self.files {
            h.add_str(n);
            h.add(&f.content);
            h.add_u64(f.durable as u64);
        }
        h.0
    }

    /// image in which every file is cut to its durable length
    pub fn durable_image(&self) -> Vec<(String, Vec<u8>)> {
        self.files.iter().map(|(n, f)| (n.clone(), f.content[..f.durable].to_vec())).collect()
    }

    pub fn current_image(&self) -> Vec<(String, Vec<u8>)> {
        self.files.iter().map(|(n, f)| (n.clone(), f.content.clone())).collect()
    }
}

/// offsets of complete-record boundaries in `bytes` (always starts with 0)
pub fn boundaries(bytes: &[u8]) -> Vec<usize> {
    let mut v = vec![0usize];
    let mut off = 0usize;
    while off < bytes.len() {
        match codecx::decode(&bytes[off..]) {
            codecx::Dec::Ok { consumed, .. } if consumed > 0 => {
                off += consumed;
                v.push(off);
            }
            _ => break,
        }
    }
    v
}

/// Post-crash contents allowed for one file: `full` = completed writes plus
/// (optionally) the write that is about to run; bytes below `durable` are
/// safe. Returns distinct candidate contents.
pub fn file_variants(full: &[u8], durable: usize, every_byte: bool) -> Vec<Vec<u8>> {
    let total = full.len();
    let durable = durable.min(total);
    let mut cuts: Vec<usize> = vec![durable, total];
    let bounds = boundaries(full);
    if every_byte {
        cuts.extend(durable..=total);
    } else {
        for w in bounds.windows(2) {
            let (s, e) = (w[0], w[1]);
            for p in [s, s + 1, (s + e) / 2, e - 1, e] {
                if p >= durable && p <= total {
                    cuts.push(p);
                }
            }
        }
        // an incomplete trailing record (pending write cut short etc.)
        let lastb = *bounds.last().unwrap();
        if lastb < total {
            for p in [lastb + 1, (lastb + total) / 2, total - 1] {
                if p >= durable && p <= total {
                    cuts.push(p);
                }
            }
        }
    }
    cuts.sort();
    cuts.dedup();
    let mut out: Vec<Vec<u8>> = cuts.iter().map(|c| full[..*c].to_vec()).collect();
    // zero-filled tails from a record boundary at or above the durable length
    for b in &bounds {
        if *b >= durable && *b < total {
            let mut lens = vec![1usize, (total - b).min(28), total - b];
            lens.sort();
            lens.dedup();
            for n in lens {
                let mut v = full[..*b].to_vec();
                v.extend(std::iter::repeat(0u8).take(n));
                out.push(v);
            }
        }
    }
    out.sort();
    out.dedup();
    out
}

pub fn image_hash(files: &[(String, Vec<u8>)]) -> u64 {
    let mut h = Fnv::new();
    for (n, b) in files {
        h.add_str(n);
        h.add(b);
    }
    h.0
}

/// Cross product of per-file variants; `cap` bounds the number of images.
pub fn cross(per_file: &[(String, Vec<Vec<u8>>)], cap: usize) -> (Vec<Vec<(String, Vec<u8>)>>, bool) {
    let mut out: Vec<Vec<(String, Vec<u8>)>> = vec![vec![]];
    let mut capped = false;
    for (name, vars) in per_file {
        let mut next = vec![];
        'o: for base in &out {
            for v in vars {
                if next.len() >= cap {
                    capped = true;
                    break 'o;
                }
                let mut b = base.clone();
                b.push((name.clone(), v.clone()));
                next.push(b);
            }
        }
        out = next;
    }
    (out, capped)
}
