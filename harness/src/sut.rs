//! Driver for the real store: scratch directories, configuration, applying
//! model operations through the public API and collecting observations.

use std::panic::catch_unwind;
use std::panic::AssertUnwindSafe;
use std::sync::atomic::AtomicU64;
use std::sync::atomic::Ordering;
use std::sync::Arc;
use std::time::Duration;

use raft_log::api::raft_log_writer::RaftLogWriter;
use raft_log::codeq::OffsetSize;
use raft_log::Config;
use raft_log::DumpApi;
use raft_log::RaftLog;
use raft_log::Segment;

use crate::enc;
use crate::enc::MRec;
use crate::enc::MState;
use crate::model::Limits;
use crate::model::Op;
use crate::vt::AckEvent;
use crate::vt::AckLog;
use crate::vt::LogId;
use crate::vt::VT;

#[derive(Clone, Copy, Debug, PartialEq, Eq, Hash, Default)]
pub struct Cfg {
    pub max_records: Option<usize>,
    pub max_size: Option<usize>,
    pub cache_items: Option<usize>,
    pub cache_cap: Option<usize>,
    pub read_buf: Option<usize>,
    pub truncate_incomplete: Option<bool>,
    /// the journal starts at this global offset (a chunk file holding only a
    /// default state snapshot is placed there before the first open)
    pub start_offset: Option<u64>,
}

impl Cfg {
    pub fn records(n: usize) -> Self {
        Cfg {
            max_records: Some(n),
            ..Default::default()
        }
    }
    pub fn size(n: usize) -> Self {
        Cfg {
            max_size: Some(n),
            ..Default::default()
        }
    }
    pub fn with_cache(mut self, items: Option<usize>, cap: Option<usize>) -> Self {
        self.cache_items = items;
        self.cache_cap = cap;
        self
    }
    pub fn with_read_buf(mut self, n: Option<usize>) -> Self {
        self.read_buf = n;
        self
    }
    pub fn starting_at(mut self, offset: u64) -> Self {
        self.start_offset = Some(offset);
        self
    }
    pub fn to_config(&self, dir: &str) -> Arc<Config> {
        Arc::new(Config {
            dir: dir.to_string(),
            log_cache_max_items: self.cache_items,
            log_cache_capacity: self.cache_cap,
            read_buffer_size: self.read_buf,
            chunk_max_records: self.max_records,
            chunk_max_size: self.max_size,
            truncate_incomplete_record: self.truncate_incomplete,
        })
    }
    pub fn limits(&self) -> Limits {
        Limits {
            max_records: self.max_records.unwrap_or(1024 * 1024),
            max_size: self.max_size.unwrap_or(1024 * 1024 * 1024),
        }
    }
    pub fn short(&self) -> String {
        let f = |o: Option<usize>| match o {
            Some(n) => n.to_string(),
            None => "-".to_string(),
        };
        format!(
            "rec={} size={} citems={} ccap={} rbuf={}{}{}",
            f(self.max_records),
            f(self.max_size),
            f(self.cache_items),
            f(self.cache_cap),
            f(self.read_buf),
            match self.truncate_incomplete {
                Some(false) => " notrunc",
                _ => "",
            },
            match self.start_offset {
                Some(x) => format!(" start@{}", x),
                None => String::new(),
            }
        )
    }
}

static DIR_SEQ: AtomicU64 = AtomicU64::new(0);

pub fn scratch_root() -> String {
    format!("/dev/shm/vx-{}", std::process::id())
}

/// A fresh, empty scratch directory (tmpfs). Removed by `ScratchDir::drop`.
pub struct ScratchDir {
    pub path: String,
}

impl ScratchDir {
    pub fn new() -> Self {
        let n = DIR_SEQ.fetch_add(1, Ordering::Relaxed);
        // spread scratch directories over sub-directories to avoid contention
        // on one parent directory
        let path = format!("{}/s{}/d{}", scratch_root(), n % 64, n);
        std::fs::create_dir_all(&path).expect("create scratch dir");
        ScratchDir { path }
    }
}

impl Default for ScratchDir {
    fn default() -> Self {
        Self::new()
    }
}

impl Drop for ScratchDir {
    fn drop(&mut self) {
        let _ = std::fs::remove_dir_all(&self.path);
    }
}

pub fn cleanup_scratch_root() {
    let _ = std::fs::remove_dir_all(scratch_root());
}

pub fn mstate(rl: &RaftLog<VT>) -> MState {
    let s = rl.log_state();
    MState {
        vote: s.vote().cloned(),
        last: s.last().cloned(),
        committed: s.committed().cloned(),
        purged: s.purged().cloned(),
        user_data: s.user_data.clone(),
    }
}

#[derive(Clone, Copy, Debug, PartialEq, Eq, Hash)]
pub struct Seg {
    pub offset: u64,
    pub len: u64,
}

pub fn seg(s: &Segment) -> Seg {
    Seg {
        offset: s.offset().0,
        len: s.size().0,
    }
}

#[derive(Clone, Debug, PartialEq, Eq)]
pub enum CallResult {
    Ok(Option<Seg>),
    Err(String),
    Panic(String),
}

impl CallResult {
    pub fn is_ok(&self) -> bool {
        matches!(self, CallResult::Ok(_))
    }
    pub fn is_err(&self) -> bool {
        matches!(self, CallResult::Err(_))
    }
    pub fn is_panic(&self) -> bool {
        matches!(self, CallResult::Panic(_))
    }
}

pub fn panic_msg(e: Box<dyn std::any::Any + Send>) -> String {
    if let Some(s) = e.downcast_ref::<&str>() {
        s.to_string()
    } else if let Some(s) = e.downcast_ref::<String>() {
        s.clone()
    } else {
        "<non-string panic>".to_string()
    }
}

/// One record of a dump: (chunk start, index in chunk, global offset, len, record)
#[derive(Clone, Debug, PartialEq, Eq)]
pub struct DumpRec {
    pub chunk: u64,
    pub idx: u64,
    pub offset: u64,
    pub len: u64,
    pub rec: Result<MRec, String>,
}

#[derive(Clone, Debug, PartialEq, Eq)]
pub struct ChunkObs {
    pub start: u64,
    pub records: u64,
    pub end: u64,
    pub size: u64,
    pub last: Option<LogId>,
}

#[derive(Clone, Debug, PartialEq, Eq)]
pub struct CacheObs {
    pub resident: Vec<(LogId, u64)>,
    pub boundary: Option<LogId>,
    pub item_count: u64,
    pub total_size: u64,
    pub stat_items: u64,
    pub stat_size: u64,
    pub stat_boundary: Option<LogId>,
    pub max_items: u64,
    pub capacity: u64,
}

pub struct Sut {
    pub dir: ScratchDir,
    pub cfg: Cfg,
    pub rl: Option<RaftLog<VT>>,
    pub acks: Arc<AckLog>,
    pub next_ack: u64,
}

pub const ACK_TIMEOUT: Duration = Duration::from_secs(90);

impl Sut {
    pub fn open(cfg: Cfg) -> Result<Self, String> {
        let dir = ScratchDir::new();
        Self::open_in(dir, cfg)
    }

    pub fn open_in(dir: ScratchDir, cfg: Cfg) -> Result<Self, String> {
        if let Some(x) = cfg.start_offset {
            if list_files(&dir.path).is_empty() {
                let head = enc::encode(&MRec::State(MState::default()));
                std::fs::write(format!("{}/{}", dir.path, chunk_name(x)), head).map_err(|e| e.to_string())?;
            }
        }
        let rl = open_store(&dir.path, &cfg)?;
        Ok(Sut {
            dir,
            cfg,
            rl: Some(rl),
            acks: AckLog::new(),
            next_ack: 0,
        })
    }

    pub fn rl(&self) -> &RaftLog<VT> {
        self.rl.as_ref().unwrap()
    }

    pub fn rl_mut(&mut self) -> &mut RaftLog<VT> {
        self.rl.as_mut().unwrap()
    }

    /// Applies a write operation through the public API.
    pub fn call(&mut self, op: &Op) -> CallResult {
        let rl = self.rl.as_mut().unwrap();
        let r = catch_unwind(AssertUnwindSafe(|| match op {
            Op::Vote(v) => rl.save_vote(*v).map(Some),
            Op::Append(es) => rl.append(es.clone()).map(Some),
            Op::Truncate(i) => rl.truncate(*i).map(Some),
            Op::Purge(id) => rl.purge(*id).map(Some),
            Op::Commit(id) => rl.commit(*id).map(Some),
            Op::UserData(u) => rl.save_user_data(u.clone()).map(Some),
            Op::Flush | Op::Reopen(_) => unreachable!(),
        }));
        match r {
            Ok(Ok(s)) => CallResult::Ok(s.map(|s| seg(&s))),
            Ok(Err(e)) => CallResult::Err(format!("{:?}: {}", e.kind(), e)),
            Err(p) => CallResult::Panic(panic_msg(p)),
        }
    }

    /// flush, wait for the acknowledgement, wait for the worker to go idle
    pub fn flush_wait(&mut self) -> Result<(), String> {
        let id = self.next_ack;
        self.next_ack += 1;
        let cb = self.acks.cb(id);
        self.rl_mut().flush(Some(cb)).map_err(|e| format!("flush: {}", e))?;
        match self.acks.wait_patiently(id, ACK_TIMEOUT) {
            Some(AckEvent::Sent { ok: true, .. }) => {}
            Some(e) => return Err(format!("flush ack: {:?}", e)),
            None => return Err("flush ack: timeout".to_string()),
        }
        self.rl().wait_worker_idle();
        Ok(())
    }

    pub fn close(&mut self) {
        self.rl = None;
    }

    /// Text written by a standalone `Dump` (its own directory lock, reads the
    /// files from disk) on the closed directory.
    pub fn offline_dump(&mut self) -> Result<String, String> {
        self.rl = None;
        let c = self.cfg.to_config(&self.dir.path);
        let r = catch_unwind(AssertUnwindSafe(|| {
            let d = raft_log::Dump::<VT>::new(c).map_err(|e| format!("Dump::new: {}", e))?;
            d.write_to_string().map_err(|e| e.to_string())
        }));
        match r {
            Ok(x) => x,
            Err(p) => Err(format!("PANIC: {}", panic_msg(p))),
        }
    }

    pub fn reopen(&mut self, cfg: Cfg) -> Result<(), String> {
        self.rl = None;
        self.cfg = cfg;
        self.rl = Some(open_store(&self.dir.path, &cfg)?);
        Ok(())
    }

    pub fn state(&self) -> MState {
        mstate(self.rl())
    }

    /// `read(from,to)` collected; `Err` carries the first error
    pub fn read(&self, from: u64, to: u64) -> Result<Vec<(LogId, String)>, String> {
        read_range(self.rl(), from, to)
    }

    pub fn chunks(&self) -> Vec<ChunkObs> {
        let st = self.rl().stat();
        let mut v: Vec<ChunkObs> = st
            .closed_chunks
            .iter()
            .map(|c| ChunkObs {
                start: c.global_start,
                records: c.records_count,
                end: c.global_end,
                size: c.size,
                last: c.log_state.last().cloned(),
            })
            .collect();
        let c = &st.open_chunk;
        v.push(ChunkObs {
            start: c.global_start,
            records: c.records_count,
            end: c.global_end,
            size: c.size,
            last: c.log_state.last().cloned(),
        });
        v
    }

    pub fn cache(&self) -> CacheObs {
        let rl = self.rl();
        let (resident, boundary, item_count, total_size) = rl.verif_cache_resident();
        let st = rl.stat();
        CacheObs {
            resident,
            boundary,
            item_count,
            total_size,
            stat_items: st.payload_cache_item_count,
            stat_size: st.payload_cache_size,
            stat_boundary: st.payload_cache_last_evictable,
            max_items: st.payload_cache_max_item,
            capacity: st.payload_cache_capacity,
        }
    }

    pub fn dump(&self) -> Result<Vec<DumpRec>, String> {
        let mut out = vec![];
        self.rl()
            .dump()
            .write_with(|chunk, idx, res| {
                match res {
                    Ok((s, r)) => out.push(DumpRec {
                        chunk: chunk.0,
                        idx,
                        offset: chunk.0 + s.offset().0,
                        len: s.size().0,
                        rec: Ok(enc::from_real(&r)),
                    }),
                    Err(e) => out.push(DumpRec {
                        chunk: chunk.0,
                        idx,
                        offset: 0,
                        len: 0,
                        rec: Err(e.to_string()),
                    }),
                }
                Ok(())
            })
            .map_err(|e| e.to_string())?;
        Ok(out)
    }

    pub fn dump_string(&self) -> Result<String, String> {
        self.rl().dump().write_to_string().map_err(|e| e.to_string())
    }

    /// sorted (file name, length) of everything in the directory except LOCK
    pub fn files(&self) -> Vec<(String, u64)> {
        list_files(&self.dir.path)
    }
}

pub fn open_store(dir: &str, cfg: &Cfg) -> Result<RaftLog<VT>, String> {
    let c = cfg.to_config(dir);
    match catch_unwind(AssertUnwindSafe(|| RaftLog::<VT>::open(c))) {
        Ok(Ok(rl)) => Ok(rl),
        Ok(Err(e)) => Err(format!("Err({:?}): {}", e.kind(), e)),
        Err(p) => Err(format!("PANIC: {}", panic_msg(p))),
    }
}

pub fn read_range(
    rl: &RaftLog<VT>,
    from: u64,
    to: u64,
) -> Result<Vec<(LogId, String)>, String> {
    let r = catch_unwind(AssertUnwindSafe(|| {
        let mut out = vec![];
        for item in rl.read(from, to) {
            match item {
                Ok(x) => out.push(x),
                Err(e) => return Err(format!("Err({:?}): {}", e.kind(), e)),
            }
        }
        Ok(out)
    }));
    match r {
        Ok(x) => x,
        Err(p) => Err(format!("PANIC: {}", panic_msg(p))),
    }
}

pub fn list_files(dir: &str) -> Vec<(String, u64)> {
    let mut v = vec![];
    if let Ok(rd) = std::fs::read_dir(dir) {
        for e in rd.flatten() {
            let name = e.file_name().to_string_lossy().to_string();
            if name == "LOCK" {
                continue;
            }
            let len = e.metadata().map(|m| m.len()).unwrap_or(0);
            v.push((name, len));
        }
    }
    v.sort();
    v
}

/// chunk file name for a global offset, computed independently of the crate
pub fn chunk_name(offset: u64) -> String {
    let s = format!("{:020}", offset);
    let b = s.as_bytes();
    // groups: 2,3,3,3,3,3,3
    let mut out = String::from("r-");
    out.push_str(std::str::from_utf8(&b[0..2]).unwrap());
    let mut i = 2;
    while i < 20 {
        out.push('_');
        out.push_str(std::str::from_utf8(&b[i..i + 3]).unwrap());
        i += 3;
    }
    out.push_str(".wal");
    out
}
