//! C11: chunk file-name encoding round trip over a structured set of offsets.

use std::collections::BTreeSet;

use raft_log::ChunkId;
use raft_log::RaftLog;
use serde_json::json;

use crate::report::Reporter;
use crate::report::Violation;
use crate::sut::chunk_name;
use crate::sut::Cfg;
use crate::sut::ScratchDir;
use crate::vt::VT;

pub fn offsets() -> Vec<u64> {
    let mut s: BTreeSet<u64> = BTreeSet::new();
    s.insert(0);
    s.insert(u64::MAX);
    let mut p: u128 = 1;
    for _ in 0..20 {
        for d in [-1i128, 0, 1] {
            let v = p as i128 + d;
            if v >= 0 && v <= u64::MAX as i128 {
                s.insert(v as u64);
            }
        }
        // every (digit position, digit value) pair
        for digit in 1..=9u128 {
            let v = p * digit;
            if v <= u64::MAX as u128 {
                s.insert(v as u64);
            }
        }
        p *= 10;
    }
    for k in 0..64 {
        let b = 1u64 << k;
        s.insert(b);
        s.insert(b - 1);
        s.insert(b.wrapping_add(1));
    }
    s.into_iter().collect()
}

/// returns the number of offsets checked
pub fn check_names(rep: &Reporter) -> u64 {
    let offs = offsets();
    let mk = |key: &str, what: String, x: u64| Violation {
        prop: rep.prop.clone(),
        key: key.to_string(),
        what,
        replay: json!({"engine":"names","offset": x}),
    };
    // one at a time: name, creation, listing
    for x in &offs {
        let d = ScratchDir::new();
        let cfg = Cfg::default().to_config(&d.path);
        let path = cfg.chunk_path(ChunkId(*x));
        let want = format!("{}/{}", d.path, chunk_name(*x));
        if path != want {
            rep.report(mk("file-name-encoding", format!("chunk_path({}) = {} but the documented encoding is {}", x, path, want), *x));
            continue;
        }
        std::fs::write(&path, b"").expect("create chunk file");
        match RaftLog::<VT>::load_chunk_ids(&cfg) {
            Ok(ids) => {
                let got: Vec<u64> = ids.iter().map(|c| c.0).collect();
                if got != vec![*x] {
                    rep.report(mk("file-name-roundtrip", format!("offset {} listed back as {:?}", x, got), *x));
                }
            }
            Err(e) => rep.report(mk("file-name-roundtrip", format!("listing failed for offset {}: {}", x, e), *x)),
        }
    }
    // all together: listing must come back in numeric order
    {
        let d = ScratchDir::new();
        let cfg = Cfg::default().to_config(&d.path);
        for x in &offs {
            std::fs::write(cfg.chunk_path(ChunkId(*x)), b"").unwrap();
        }
        match RaftLog::<VT>::load_chunk_ids(&cfg) {
            Ok(ids) => {
                let got: Vec<u64> = ids.iter().map(|c| c.0).collect();
                if got != offs {
                    rep.report(mk("file-name-order", "listing of many chunk files is not the sorted offset list".to_string(), 0));
                }
            }
            Err(e) => rep.report(mk("file-name-order", format!("listing failed: {}", e), 0)),
        }
    }
    offs.len() as u64
}
