//! C16 argument-grid probes: every public operation with boundary arguments
//! at a given reachable state, each write probe on its own fresh replay.

use std::panic::catch_unwind;
use std::panic::AssertUnwindSafe;
use std::sync::atomic::Ordering;

use raft_log::api::raft_log_writer::RaftLogWriter;
use serde_json::json;

use crate::model::hist_short;
use crate::model::Op;
use crate::model::RefLog;
use crate::report::Violation;
use crate::seqx::cfg_to_json;
use crate::seqx::op_class;
use crate::seqx::op_to_json;
use crate::seqx::SeqSpec;
use crate::seqx::SeqStats;
use crate::sut::panic_msg;
use crate::sut::CallResult;
use crate::sut::Cfg;
use crate::sut::Sut;

pub fn index_grid(m: &RefLog) -> Vec<u64> {
    let mut v = vec![0u64, 1, u64::MAX - 1, u64::MAX];
    if let Some(p) = m.st.purged {
        v.extend([p.1.wrapping_sub(1), p.1, p.1.wrapping_add(1)]);
    }
    if let Some(f) = m.entries.keys().next() {
        v.push(*f);
    }
    if let Some(l) = m.st.last {
        v.extend([l.1.wrapping_sub(1), l.1, l.1.wrapping_add(1), l.1.wrapping_add(2)]);
    }
    v.sort();
    v.dedup();
    v
}

pub fn term_grid(m: &RefLog) -> Vec<u64> {
    let cur = m.st.last.map(|l| l.0).unwrap_or(1);
    let mut v = vec![0, cur.wrapping_sub(1), cur, cur.wrapping_add(1), u64::MAX];
    v.sort();
    v.dedup();
    v
}

fn replay_hist(hist: &[Op], cfg: &Cfg) -> Option<Sut> {
    let mut sut = Sut::open(*cfg).ok()?;
    for op in hist {
        match op {
            Op::Flush => sut.flush_wait().ok()?,
            Op::Reopen(_) => return None,
            _ => {
                let r = sut.call(op);
                sut.rl().wait_worker_idle();
                if r.is_panic() {
                    return None;
                }
            }
        }
    }
    Some(sut)
}

fn pvio(spec: &SeqSpec, key: String, what: String, hist: &[Op], cfg: &Cfg, probe: serde_json::Value) -> Violation {
    Violation {
        prop: spec.prop.clone(),
        key,
        what: format!("{} | after history: [{}] | cfg: {}", what, hist_short(hist), cfg.short()),
        replay: json!({
            "engine": "seqx-probe",
            "history": hist.iter().map(op_to_json).collect::<Vec<_>>(),
            "history_text": hist_short(hist),
            "cfg": cfg_to_json(cfg),
            "probe": probe,
        }),
    }
}

pub fn write_probes(m: &RefLog) -> Vec<Op> {
    let idx = index_grid(m);
    let terms = term_grid(m);
    let mut v = vec![];
    for i in &idx {
        v.push(Op::Truncate(*i));
    }
    for t in &terms {
        for i in &idx {
            v.push(Op::Purge((*t, *i)));
            v.push(Op::Commit((*t, *i)));
            v.push(Op::Append(vec![((*t, *i), "probe".to_string())]));
        }
        for n in [0u64, 1, u64::MAX] {
            v.push(Op::Vote((*t, n)));
        }
    }
    v.push(Op::UserData(None));
    v.push(Op::UserData(Some(String::new())));
    v
}

/// Runs the whole grid at the state reached by `hist`.
pub fn run_grid(spec: &SeqSpec, hist: &[Op], m: &RefLog, rep: &mut Vec<Violation>, stats: &SeqStats) {
    for cfg in &spec.cfgs {
        // read probes share one store (reads do not mutate)
        if let Some(sut) = replay_hist(hist, cfg) {
            let idx = index_grid(m);
            for a in &idx {
                for b in &idx {
                    stats.probes.fetch_add(1, Ordering::Relaxed);
                    let r = catch_unwind(AssertUnwindSafe(|| {
                        let rl = sut.rl();
                        let n = rl.read(*a, *b).take(64).count();
                        n
                    }));
                    if let Err(p) = r {
                        let key = if a > b { "panic:read(from>to)".to_string() } else { format!("panic:read({},{})", a, b) };
                        rep.push(pvio(
                            spec,
                            key,
                            format!("read({},{}) panicked: {}", a, b, panic_msg(p)),
                            hist,
                            cfg,
                            json!({"op":"read","from":a,"to":b}),
                        ));
                    }
                }
            }
            let r = catch_unwind(AssertUnwindSafe(|| {
                let rl = sut.rl();
                let _ = rl.stat();
                let _ = rl.on_disk_size();
                let mut d = rl.dump_data();
                let _ = d.iter().count();
            }));
            if let Err(p) = r {
                rep.push(pvio(
                    spec,
                    "panic:observers".to_string(),
                    format!("stat/on_disk_size/dump_data panicked: {}", panic_msg(p)),
                    hist,
                    cfg,
                    json!({"op":"observers"}),
                ));
            }
        }
        for probe in write_probes(m) {
            stats.probes.fetch_add(1, Ordering::Relaxed);
            let Some(mut sut) = replay_hist(hist, cfg) else { continue };
            let res = sut.call(&probe);
            if let CallResult::Panic(msg) = &res {
                rep.push(pvio(
                    spec,
                    format!("panic:{}", op_class(&probe, m)),
                    format!("{} panicked: {}", probe.short(), msg),
                    hist,
                    cfg,
                    json!({"op": op_to_json(&probe)}),
                ));
                continue;
            }
            // follow-up: the store must stay usable without panicking
            let r = catch_unwind(AssertUnwindSafe(|| {
                let rl = sut.rl();
                let _ = rl.read(0, u64::MAX).take(64).count();
                let _ = rl.stat();
                let _ = rl.on_disk_size();
            }));
            if let Err(p) = r {
                rep.push(pvio(
                    spec,
                    format!("panic-after:{}", op_class(&probe, m)),
                    format!("observers panicked after {} returned {:?}: {}", probe.short(), res, panic_msg(p)),
                    hist,
                    cfg,
                    json!({"op": op_to_json(&probe), "followup": true}),
                ));
                continue;
            }
            let _ = sut.flush_wait();
        }
        // `update_state` is public too: the caller can install a state whose
        // `last` (the only field settable from outside, through `set_last`)
        // and user data are arbitrary, i.e. inconsistent with the index. No
        // operation may panic on such a state either.
        for last in state_probes(m) {
            stats.probes.fetch_add(1, Ordering::Relaxed);
            let Some(mut sut) = replay_hist(hist, cfg) else { continue };
            if let Some((step, msg)) = run_state_probe(&mut sut, last) {
                rep.push(pvio(
                    spec,
                    format!("panic:update_state(last={})-then-{}", last_class(last, m), step),
                    format!("update_state with last={:?}, then {}: panicked: {}", last, step, msg),
                    hist,
                    cfg,
                    json!({"op": "update_state", "last": last.map(|l| vec![l.0, l.1])}),
                ));
            }
        }
    }
}

pub fn state_probes(m: &RefLog) -> Vec<Option<crate::vt::LogId>> {
    let mut v = vec![None];
    for t in term_grid(m) {
        for i in index_grid(m) {
            v.push(Some((t, i)));
        }
    }
    v
}

fn last_class(last: Option<crate::vt::LogId>, m: &RefLog) -> String {
    match last {
        None => "None".to_string(),
        Some(l) if l.1 >= u64::MAX - 1 => "index-at-limit".to_string(),
        Some(l) if Some(l) > m.st.last => "above-last".to_string(),
        Some(l) if Some(l) == m.st.last => "equal-last".to_string(),
        Some(_) => "below-last".to_string(),
    }
}

/// Installs a state with the given `last` through the public `update_state`
/// and exercises every public operation on it. Returns the step that
/// panicked, if any.
pub fn run_state_probe(sut: &mut Sut, last: Option<crate::vt::LogId>) -> Option<(String, String)> {
    let mut steps: Vec<(String, Box<dyn FnOnce(&mut Sut)>)> = vec![];
    steps.push(("update_state".into(), Box::new(move |s: &mut Sut| {
        let mut st = s.rl().log_state().clone();
        st.set_last(last);
        st.user_data = Some("probe".to_string());
        let _ = s.rl_mut().update_state(st);
    })));
    let observers = |s: &mut Sut| {
        let rl = s.rl();
        let _ = rl.read(0, u64::MAX).take(64).count();
        let _ = rl.stat();
        let _ = rl.on_disk_size();
        let mut d = rl.dump_data();
        let _ = d.iter().count();
    };
    steps.push(("observers".into(), Box::new(observers)));
    let next = last.map(|l| l.1.wrapping_add(1)).unwrap_or(0);
    let term = last.map(|l| l.0).unwrap_or(1);
    let idxs: Vec<u64> = {
        let mut v = vec![0, next, next.wrapping_sub(1), next.wrapping_add(1)];
        v.sort();
        v.dedup();
        v
    };
    for i in idxs.clone() {
        steps.push((format!("truncate({})", i), Box::new(move |s: &mut Sut| {
            let _ = s.rl_mut().truncate(i);
        })));
    }
    steps.push((format!("append(({},{}))", term, next), Box::new(move |s: &mut Sut| {
        let _ = s.rl_mut().append(vec![((term, next), "probe".to_string())]);
    })));
    steps.push(("observers-after-append".into(), Box::new(observers)));
    for i in idxs {
        steps.push((format!("commit(({},{}))", term, i), Box::new(move |s: &mut Sut| {
            let _ = s.rl_mut().commit((term, i));
        })));
        steps.push((format!("purge(({},{}))", term, i), Box::new(move |s: &mut Sut| {
            let _ = s.rl_mut().purge((term, i));
        })));
        steps.push((format!("observers-after-purge({})", i), Box::new(observers)));
    }
    steps.push(("flush".into(), Box::new(|s: &mut Sut| {
        let _ = s.flush_wait();
    })));
    steps.push(("restart".into(), Box::new(|s: &mut Sut| {
        let cfg = s.cfg;
        if s.reopen(cfg).is_ok() {
            let _ = s.rl().read(0, u64::MAX).take(64).count();
        }
    })));
    for (name, f) in steps {
        if sut.rl.is_none() {
            break;
        }
        let r = catch_unwind(AssertUnwindSafe(|| f(sut)));
        if let Err(p) = r {
            return Some((name, panic_msg(p)));
        }
    }
    None
}

/// Re-executes one recorded probe: history, then the probed call.
pub fn replay(prop: &str, r: &serde_json::Value) -> i32 {
    let hist: Vec<Op> = r["history"].as_array().map(|a| a.iter().map(crate::seqx::op_from_json).collect()).unwrap_or_default();
    let cfg = crate::seqx::cfg_from_json(&r["cfg"]);
    let Some(mut sut) = replay_hist(&hist, &cfg) else {
        println!("REPLAY property={} the history could not be replayed on this tree", prop);
        return 2;
    };
    let p = &r["probe"];
    let res: Result<String, String> = if p["op"] == "read" {
        let (a, b) = (p["from"].as_u64().unwrap_or(0), p["to"].as_u64().unwrap_or(0));
        catch_unwind(AssertUnwindSafe(|| format!("{} entries", sut.rl().read(a, b).take(64).count()))).map_err(panic_msg)
    } else if p["op"] == "observers" {
        catch_unwind(AssertUnwindSafe(|| {
            let rl = sut.rl();
            let _ = rl.stat();
            let _ = rl.on_disk_size();
            let mut d = rl.dump_data();
            format!("{} entries", d.iter().count())
        }))
        .map_err(panic_msg)
    } else if p["op"] == "update_state" {
        let last = p["last"].as_array().map(|a| (a[0].as_u64().unwrap_or(0), a[1].as_u64().unwrap_or(0)));
        match run_state_probe(&mut sut, last) {
            Some((step, m)) => Err(format!("at step {}: {}", step, m)),
            None => Ok("no panic".to_string()),
        }
    } else {
        let op = crate::seqx::op_from_json(&p["op"]);
        match sut.call(&op) {
            CallResult::Panic(m) => Err(m),
            other => Ok(format!("{:?}", other)),
        }
    };
    match res {
        Ok(x) => {
            println!("REPLAY property={} held for this case (returned {})", prop, x);
            0
        }
        Err(m) => {
            println!("REPLAY property={} VIOLATION the probed call panicked: {}", prop, m);
            1
        }
    }
}

// ---------------------------------------------------------------------------
// open()/Dump::new on unusual directories (the `dir` of the configuration is an
// argument too)
// ---------------------------------------------------------------------------

/// Builds each directory situation, calls `RaftLog::open` and `Dump::new` +
/// `write_to_string` on it, and reports a panic. Returns the number of calls.
pub fn run_dir_probes(rep: &crate::report::Reporter) -> u64 {
    use crate::sut::ScratchDir;
    let mut n = 0;
    // one valid chunk image to copy under other names
    let valid: Vec<(String, Vec<u8>)> = {
        let mut sut = Sut::open(Cfg::records(3)).expect("seed store");
        let _ = sut.call(&Op::Append(vec![((1, 0), "x".to_string())]));
        let _ = sut.flush_wait();
        sut.close();
        crate::imagex::read_files(&sut.dir.path)
    };
    let head = valid[0].1.clone();
    type Setup = Box<dyn Fn(&str) -> String>;
    let situations: Vec<(&str, Setup)> = vec![
        ("dir-does-not-exist", Box::new(|d: &str| format!("{}/missing", d))),
        ("dir-is-a-regular-file", Box::new(|d: &str| {
            let p = format!("{}/file", d);
            std::fs::write(&p, b"x").unwrap();
            p
        })),
        ("empty-dir", Box::new(|d: &str| d.to_string())),
        ("dir-path-empty-string", Box::new(|_d: &str| String::new())),
        ("chunk-name-is-a-directory", Box::new(|d: &str| {
            std::fs::create_dir_all(format!("{}/r-00_000_000_000_000_000_000.wal", d)).unwrap();
            d.to_string()
        })),
        ("lock-is-a-directory", Box::new(|d: &str| {
            std::fs::create_dir_all(format!("{}/LOCK", d)).unwrap();
            d.to_string()
        })),
        ("stray-files", Box::new(|d: &str| {
            for f in ["r-.wal", "r-00_000_000_000_000_000_00x.wal", "r-99_999_999_999_999_999_999.wal", "r-00_000_000_000_000_000_000.wal.tmp", "foo", ".hidden", "r-0.wal", "r-00_000_000_000_000_000_0000.wal", "R-00_000_000_000_000_000_000.WAL"] {
                std::fs::write(format!("{}/{}", d, f), b"junk").unwrap();
            }
            d.to_string()
        })),
        ("empty-chunk-file-only", Box::new(|d: &str| {
            std::fs::write(format!("{}/r-00_000_000_000_000_000_000.wal", d), b"").unwrap();
            d.to_string()
        })),
    ];
    let mut all: Vec<(String, Setup)> = situations.into_iter().map(|(a, b)| (a.to_string(), b)).collect();
    // a valid chunk file under a name at the top of the offset range
    // (names within a few hundred bytes of u64::MAX make the offset arithmetic
    // overflow; a journal cannot get there — 16 EiB — and no property speaks
    // about it, so those are not probed; see DESIGN section 10)
    for off in [1u64 << 63, (1u64 << 63) - 1, 10_000_000_000_000_000_000, u64::MAX - (1 << 32)] {
        let bytes = head.clone();
        all.push((
            format!("valid-chunk-named-offset-{}", off),
            Box::new(move |d: &str| {
                std::fs::write(format!("{}/{}", d, crate::sut::chunk_name(off)), &bytes).unwrap();
                d.to_string()
            }),
        ));
    }
    for (name, setup) in all {
        for which in ["RaftLog::open", "Dump::new+write", "open+append+flush"] {
            let sd = ScratchDir::new();
            let dir = setup(&sd.path);
            n += 1;
            let r = catch_unwind(AssertUnwindSafe(|| {
                let cfg = Cfg::records(3).to_config(&dir);
                match which {
                    "RaftLog::open" => {
                        let _ = raft_log::RaftLog::<crate::vt::VT>::open(cfg).map(|rl| {
                            let _ = rl.read(0, u64::MAX).take(8).count();
                            let _ = rl.stat();
                            let _ = rl.on_disk_size();
                        });
                    }
                    "Dump::new+write" => {
                        use raft_log::DumpApi;
                        let _ = raft_log::Dump::<crate::vt::VT>::new(cfg).map(|d| d.write_to_string());
                    }
                    _ => {
                        if let Ok(mut rl) = raft_log::RaftLog::<crate::vt::VT>::open(cfg) {
                            let next = rl.log_state().last().map(|l| (l.0, l.1 + 1)).unwrap_or((1, 0));
                            let _ = rl.append(vec![(next, "probe".to_string())]);
                            let _ = rl.append(vec![((next.0, next.1 + 1), "probe".to_string())]);
                            let _ = rl.append(vec![((next.0, next.1 + 2), "probe".to_string())]);
                            let _ = rl.flush(None);
                            rl.wait_worker_idle();
                            let _ = rl.stat();
                            let _ = rl.on_disk_size();
                        }
                    }
                }
            }));
            if let Err(pn) = r {
                rep.report(Violation {
                    prop: rep.prop.clone(),
                    key: format!("panic:{}-on-{}", which, name.split("-offset-").next().unwrap_or(&name)),
                    what: format!("{} panicked on directory situation '{}': {}", which, name, panic_msg(pn)),
                    replay: json!({"engine": "dir-probe", "situation": name, "call": which}),
                });
            }
        }
    }
    n
}
