//! `imagex` — exhaustive enumeration of damaged on-disk images (C09, C10).
//!
//! Seed images are the final directories of a corpus of histories run on the
//! real store (chosen greedily for layout diversity). Each seed carries the
//! model's journal, so for every mutation the set of completely present
//! records, hence the expected recovered state, is known independently.

use std::collections::BTreeMap;
use std::collections::BTreeSet;
use std::sync::atomic::AtomicU64;
use std::sync::atomic::AtomicUsize;
use std::sync::atomic::Ordering;
use std::sync::Mutex;

use serde_json::json;
use serde_json::Value;

use crate::alphabet;
use crate::alphabet::Alpha;
use crate::codecx;
use crate::enc::MRec;
use crate::enc::MState;
use crate::model::hist_short;
use crate::model::Journal;
use crate::model::MChunk;
use crate::model::Op;
use crate::model::RefLog;
use crate::report::Reporter;
use crate::report::Violation;
use crate::seqx::cfg_to_json;
use crate::seqx::model_step;
use crate::seqx::op_to_json;
use crate::sut::chunk_name;
use crate::sut::list_files;
use crate::sut::open_store;
use crate::sut::read_range;
use crate::sut::Cfg;
use crate::sut::ScratchDir;
use crate::sut::Sut;
use crate::vt::LogId;

#[derive(Clone)]
pub struct Seed {
    pub hist: Vec<Op>,
    pub cfg: Cfg,
    /// chunk files oldest first: (name, bytes)
    pub files: Vec<(String, Vec<u8>)>,
    /// model of the retained chunks, same order
    pub chunks: Vec<MChunk>,
    pub model: RefLog,
    pub sig: String,
}

/// State and entries denoted by a sequence of retained chunks' records.
pub fn replay_records<'a>(recs: impl Iterator<Item = &'a MRec>) -> RefLog {
    let mut m = RefLog::new();
    for r in recs {
        m.replay(r);
    }
    m
}

fn run_to_image(hist: &[Op], cfg: &Cfg) -> Option<Seed> {
    let mut sut = Sut::open(*cfg).ok()?;
    let mut m = RefLog::new();
    let mut j = Journal::new(cfg.limits());
    for op in hist {
        match op {
            Op::Flush => {
                sut.flush_wait().ok()?;
                j.on_flush_done();
            }
            Op::Reopen(_) => return None,
            _ => {
                let (ok, _) = model_step(&mut m, &mut j, op);
                let r = sut.call(op);
                sut.rl().wait_worker_idle();
                if ok != r.is_ok() {
                    return None;
                }
            }
        }
    }
    sut.flush_wait().ok()?;
    j.on_flush_done();
    sut.close();
    let mut files = vec![];
    for (name, _) in list_files(&sut.dir.path) {
        let b = std::fs::read(format!("{}/{}", sut.dir.path, name)).ok()?;
        files.push((name, b));
    }
    // the model must describe the image exactly (C11 checks this in general)
    if files.len() != j.chunks.len() {
        return None;
    }
    for (f, c) in files.iter().zip(j.chunks.iter()) {
        if f.0 != chunk_name(c.start) || f.1 != c.bytes() {
            return None;
        }
    }
    let mut kinds = BTreeSet::new();
    for c in &j.chunks {
        for r in &c.recs {
            kinds.insert(r.kind());
        }
    }
    let sig = format!(
        "files={} kinds={:?} head_only_newest={} purged_prefix_removed={} live={} trunc={}",
        files.len().min(4),
        kinds,
        j.chunks.last().unwrap().recs.len() == 1,
        j.chunks[0].start > 0,
        m.entries.len().min(3),
        kinds.contains(&3),
    );
    Some(Seed {
        hist: hist.to_vec(),
        cfg: *cfg,
        files,
        chunks: j.chunks.clone(),
        model: m,
        sig,
    })
}

/// One image with a 12 MiB entry as the last record of the newest chunk (after a
/// few small flushed records): limits on the size of a tail that recovery cuts,
/// or scans, show only at this scale.
pub fn big_record_seed() -> Option<Seed> {
    let hist = vec![
        Op::Vote((1, 1)),
        Op::Append(vec![((1, 0), alphabet::payload((1, 0), 0))]),
        Op::Append(vec![((1, 1), alphabet::payload((1, 1), 0))]),
        Op::Flush,
        Op::Append(vec![((1, 2), alphabet::payload((1, 2), 6))]),
    ];
    run_to_image(&hist, &Cfg::default())
}

/// Deterministic seed corpus: histories over the core alphabet up to `depth`
/// under rotation-forcing limits, one representative (smallest image) per
/// layout signature, at most `n`.
pub fn gen_seeds(n: usize, depth: usize) -> Vec<Seed> {
    let cfgs = [Cfg::records(3), Cfg::records(2), Cfg::size(100)];
    // enumerate histories on the model only
    let mut hists: Vec<(Vec<Op>, RefLog)> = vec![(vec![], RefLog::new())];
    let mut all: Vec<Vec<Op>> = vec![];
    for _ in 0..depth {
        let mut next = vec![];
        for (h, m) in &hists {
            for (_, op) in alphabet::legal(m, Alpha::Core) {
                if matches!(op, Op::Flush) {
                    continue;
                }
                let mut h2 = h.clone();
                h2.push(op.clone());
                let mut m2 = m.clone();
                m2.apply(&op);
                all.push(h2.clone());
                next.push((h2, m2));
            }
        }
        hists = next;
    }
    all.sort_by_key(|h| format!("{:?}", h));
    let best: Mutex<BTreeMap<String, Seed>> = Mutex::new(BTreeMap::new());
    let idx = AtomicUsize::new(0);
    let threads = 2 * std::thread::available_parallelism().map(|n| n.get()).unwrap_or(8);
    std::thread::scope(|sc| {
        for _ in 0..threads {
            sc.spawn(|| loop {
                let i = idx.fetch_add(1, Ordering::Relaxed);
                if i >= all.len() {
                    break;
                }
                for cfg in &cfgs {
                    if let Some(seed) = run_to_image(&all[i], cfg) {
                        let size: usize = seed.files.iter().map(|f| f.1.len()).sum();
                        let mut g = best.lock().unwrap();
                        let key = seed.sig.clone();
                        let better = match g.get(&key) {
                            None => true,
                            Some(old) => {
                                let os: usize = old.files.iter().map(|f| f.1.len()).sum();
                                (size, format!("{:?}", seed.hist)) < (os, format!("{:?}", old.hist))
                            }
                        };
                        if better {
                            g.insert(key, seed);
                        }
                    }
                }
            });
        }
    });
    let v: Vec<Seed> = best.into_inner().unwrap().into_values().collect();
    // greedy cover of layout features, then the richest remaining layouts
    let features = |s: &Seed| -> BTreeSet<String> {
        let mut f = BTreeSet::new();
        f.insert(format!("files={}", s.files.len().min(4)));
        for c in &s.chunks {
            for r in &c.recs[1..] {
                f.insert(format!("kind={}", r.kind()));
            }
        }
        let newest = s.chunks.last().unwrap();
        f.insert(format!("newest_records={}", newest.recs.len().min(3)));
        f.insert(format!("purged_prefix_removed={}", s.chunks[0].start > 0));
        f.insert(format!("live={}", s.model.entries.len().min(3)));
        if s.files.len() >= 2 && s.chunks[..s.chunks.len() - 1].iter().any(|c| c.recs.iter().any(|r| r.kind() == 1)) {
            f.insert("entries_in_closed_chunk".to_string());
        }
        if newest.recs.iter().any(|r| r.kind() == 1) {
            f.insert("entries_in_newest_chunk".to_string());
        }
        f
    };
    let richness = |s: &Seed| -> (usize, usize, std::cmp::Reverse<usize>) {
        (features(s).len(), s.files.len().min(4), std::cmp::Reverse(s.files.iter().map(|f| f.1.len()).sum::<usize>()))
    };
    let mut pool = v;
    pool.sort_by_key(|s| (std::cmp::Reverse(richness(s)), format!("{:?}", s.hist)));
    let mut covered: BTreeSet<String> = BTreeSet::new();
    let mut out: Vec<Seed> = vec![];
    while out.len() < n && !pool.is_empty() {
        let mut best_i = 0;
        let mut best_gain = 0;
        for (i, s) in pool.iter().enumerate() {
            let gain = features(s).difference(&covered).count();
            if gain > best_gain {
                best_gain = gain;
                best_i = i;
            }
        }
        // pool is sorted by richness, so with no gain left index 0 is the richest
        let s = pool.remove(if best_gain == 0 { 0 } else { best_i });
        covered.extend(features(&s));
        out.push(s);
    }
    out
}

#[derive(Clone, Debug, PartialEq, Eq)]
pub enum Opened {
    Ok { state: MState, entries: Result<Vec<(LogId, String)>, String> },
    Err(String),
    Panic(String),
}

pub struct ImageRun {
    pub dir: ScratchDir,
    pub opened: Opened,
    pub files_after: Vec<(String, Vec<u8>)>,
}

pub fn materialize(files: &[(String, Vec<u8>)]) -> ScratchDir {
    let d = ScratchDir::new();
    for (n, b) in files {
        std::fs::write(format!("{}/{}", d.path, n), b).expect("write image file");
    }
    d
}

pub fn read_files(dir: &str) -> Vec<(String, Vec<u8>)> {
    list_files(dir).into_iter().map(|(n, _)| (n.clone(), std::fs::read(format!("{}/{}", dir, n)).unwrap_or_default())).collect()
}

/// Opens the image with the real store, observes, closes.
pub type Usable = Result<Option<RefLog>, String>;

pub fn open_image(files: &[(String, Vec<u8>)], cfg: &Cfg, usability: bool) -> (ImageRun, Usable) {
    let dir = materialize(files);
    let mut usable_err: Usable = Ok(None);
    let opened = match open_store(&dir.path, cfg) {
        Ok(mut rl) => {
            let state = crate::sut::mstate(&rl);
            let entries = read_range(&rl, 0, u64::MAX);
            if usability {
                usable_err = usability_check(&mut rl, &state, &entries);
            }
            drop(rl);
            Opened::Ok { state, entries }
        }
        Err(e) if e.starts_with("PANIC") => Opened::Panic(e),
        Err(e) => Opened::Err(e),
    };
    let files_after = read_files(&dir.path);
    (ImageRun { dir, opened, files_after }, usable_err)
}

/// "subsequent writes continue from there": vote, append, flush, ack, read,
/// restart, same state.
pub fn usability_check(
    rl: &mut raft_log::RaftLog<crate::vt::VT>,
    state: &MState,
    entries: &Result<Vec<(LogId, String)>, String>,
) -> Usable {
    use raft_log::api::raft_log_writer::RaftLogWriter;
    let Ok(entries) = entries else { return Ok(None) }; // read failures are judged elsewhere
    let mut m = RefLog::new();
    m.st = state.clone();
    for (id, p) in entries {
        m.entries.insert(id.1, (*id, p.clone()));
    }
    let vt = state.vote.map(|v| v.0).unwrap_or(0) + 1;
    let ops = {
        let term = state.last.map(|l| l.0).unwrap_or(1);
        let next = crate::model::next_index(state.last.as_ref());
        vec![Op::Vote((vt, 9)), Op::Append(vec![((term, next), "after-recovery".to_string())])]
    };
    for op in &ops {
        m.apply(op);
        let r = std::panic::catch_unwind(std::panic::AssertUnwindSafe(|| match op {
            Op::Vote(v) => rl.save_vote(*v).map(|_| ()),
            Op::Append(es) => rl.append(es.clone()).map(|_| ()),
            _ => Ok(()),
        }));
        match r {
            Ok(Ok(())) => {}
            Ok(Err(e)) => return Err(format!("{} after recovery failed: {}", op.short(), e)),
            Err(p) => return Err(format!("{} after recovery panicked: {}", op.short(), crate::sut::panic_msg(p))),
        }
    }
    let acks = crate::vt::AckLog::new();
    rl.flush(Some(acks.cb(0))).map_err(|e| format!("flush after recovery: {}", e))?;
    match acks.wait_patiently(0, crate::sut::ACK_TIMEOUT) {
        Some(crate::vt::AckEvent::Sent { ok: true, .. }) => {}
        other => return Err(format!("flush after recovery not acknowledged Ok: {:?}", other)),
    }
    rl.wait_worker_idle();
    let got = read_range(rl, 0, u64::MAX);
    if got.as_ref().ok() != Some(&m.all()) || crate::sut::mstate(rl) != m.st {
        return Err(format!("after recovery + writes: state {:?} entries {:?}; expected {:?} {:?}", crate::sut::mstate(rl), got, m.st, m.all()));
    }
    Ok(Some(m))
}

fn seed_json(s: &Seed) -> Value {
    json!({
        "history": s.hist.iter().map(op_to_json).collect::<Vec<_>>(),
        "history_text": hist_short(&s.hist),
        "cfg": cfg_to_json(&s.cfg),
        "layout": s.sig,
        "files": s.files.iter().map(|f| json!([f.0, f.1.len()])).collect::<Vec<_>>(),
    })
}

// ---------------------------------------------------------------------------
// C10
// ---------------------------------------------------------------------------

pub struct ImgStats {
    pub opens: AtomicU64,
    pub distinct: Mutex<BTreeSet<u64>>,
    pub outcomes: Mutex<BTreeMap<String, u64>>,
}

impl ImgStats {
    pub fn new() -> Self {
        ImgStats {
            opens: AtomicU64::new(0),
            distinct: Mutex::new(BTreeSet::new()),
            outcomes: Mutex::new(BTreeMap::new()),
        }
    }
    fn outcome(&self, k: &str) {
        *self.outcomes.lock().unwrap().entry(k.to_string()).or_insert(0) += 1;
    }
}

#[derive(Clone, Debug)]
pub enum TailDamage {
    Cut(usize),
    Zeros { boundary: usize, len: usize },
}

fn damaged(seed: &Seed, d: &TailDamage) -> Vec<(String, Vec<u8>)> {
    let mut files = seed.files.clone();
    let last = files.last_mut().unwrap();
    match d {
        TailDamage::Cut(n) => last.1.truncate(*n),
        TailDamage::Zeros { boundary, len } => {
            last.1.truncate(*boundary);
            last.1.extend(std::iter::repeat(0u8).take(*len));
        }
    }
    files
}

/// number of complete records of the newest chunk present in the damaged image
fn complete_records(seed: &Seed, d: &TailDamage) -> (usize, usize, bool) {
    let c = seed.chunks.last().unwrap();
    let keep_bytes = match d {
        TailDamage::Cut(n) => *n,
        TailDamage::Zeros { boundary, .. } => *boundary,
    };
    let mut off = 0usize;
    let mut k = 0;
    for l in &c.lens {
        if off + *l as usize <= keep_bytes {
            off += *l as usize;
            k += 1;
        } else {
            break;
        }
    }
    let clean = match d {
        TailDamage::Cut(n) => off == *n,
        TailDamage::Zeros { .. } => false,
    };
    (k, off, clean)
}

fn tail_vio(rep: &Reporter, key: &str, what: String, seed: &Seed, d: &TailDamage, trunc: bool) -> Violation {
    let rbuf = TAIL_RBUF.with(|c| c.get());
    Violation {
        prop: rep.prop.clone(),
        key: key.to_string(),
        what: format!("{} | damage {:?} truncate_incomplete_record={} read_buffer_size={:?} | seed [{}] cfg {}", what, d, trunc, rbuf, hist_short(&seed.hist), seed.cfg.short()),
        replay: json!({"engine":"imagex-tail","seed": seed_json(seed), "damage": format!("{:?}", d), "truncate": trunc, "read_buf": rbuf}),
    }
}

thread_local! {
    /// read buffer size the current tail check recovers with (None: default)
    static TAIL_RBUF: std::cell::Cell<Option<usize>> = const { std::cell::Cell::new(None) };
}

fn check_tail_rbuf(rep: &Reporter, seed: &Seed, d: &TailDamage, trunc: bool, rbuf: Option<usize>, st: &ImgStats) {
    TAIL_RBUF.with(|c| c.set(rbuf));
    check_tail(rep, seed, d, trunc, st);
    TAIL_RBUF.with(|c| c.set(None));
}

fn check_tail(rep: &Reporter, seed: &Seed, d: &TailDamage, trunc: bool, st: &ImgStats) {
    let files = damaged(seed, d);
    let mut cfg = seed.cfg;
    cfg.truncate_incomplete = Some(trunc);
    let rbuf = TAIL_RBUF.with(|c| c.get());
    if rbuf.is_some() {
        cfg = cfg.with_read_buf(rbuf);
    }
    let (k, keep, clean) = complete_records(seed, d);
    let expect = {
        let n = seed.chunks.len();
        let older = seed.chunks[..n - 1].iter().flat_map(|c| c.recs.iter());
        let newest = seed.chunks[n - 1].recs[..k].iter();
        replay_records(older.chain(newest))
    };
    st.opens.fetch_add(1, Ordering::Relaxed);
    let mut h = crate::report::Fnv::new();
    for f in &files {
        h.add_str(&f.0);
        h.add(&f.1);
    }
    h.add_u64(trunc as u64);
    h.add_u64(rbuf.map(|x| x as u64 + 1).unwrap_or(0));
    st.distinct.lock().unwrap().insert(h.0);
    let (run, usable_err) = open_image(&files, &cfg, trunc || clean);
    let zero_complete = k == 0;
    match (&run.opened, trunc || clean) {
        (Opened::Panic(m), _) => {
            st.outcome("panic");
            let key = if zero_complete { "F4:open-panics-newest-chunk-without-complete-record" } else { "open-panics" };
            rep.report(tail_vio(rep, key, format!("open panicked: {}", m), seed, d, trunc));
        }
        (Opened::Ok { state, entries }, true) => {
            st.outcome(if clean { "ok-clean-boundary" } else { "ok-truncated" });
            if *state != expect.st || entries.as_ref().ok() != Some(&expect.all()) {
                rep.report(tail_vio(
                    rep,
                    "recovered-state-differs",
                    format!(
                        "recovered state {:?} entries {:?}; the {} completely present records denote {:?} {:?}",
                        state, entries, k, expect.st, expect.all()
                    ),
                    seed,
                    d,
                    trunc,
                ));
                return;
            }
            let after_writes = match usable_err {
                Err(e) => {
                    rep.report(tail_vio(rep, "not-usable-after-recovery", e, seed, d, trunc));
                    return;
                }
                Ok(m) => m,
            };
            // the damaged file must have been cut back to the complete prefix
            // (before the usability writes were added: check the prefix)
            let newest_name = &seed.files.last().unwrap().0;
            if let Some(f) = run.files_after.iter().find(|f| &f.0 == newest_name) {
                let want = &seed.files.last().unwrap().1[..keep];
                if f.1.len() < keep || &f.1[..keep] != want {
                    rep.report(tail_vio(rep, "complete-prefix-damaged", "the complete records were not preserved on disk".to_string(), seed, d, trunc));
                }
            } else if keep > 0 {
                rep.report(tail_vio(rep, "newest-chunk-vanished", "the newest chunk file holding complete records disappeared".to_string(), seed, d, trunc));
            }
            // restart again: same state as after the usability writes is checked inside open_image
            let (run2, _) = open_image(&run.files_after, &cfg, false);
            match run2.opened {
                Opened::Ok { state, entries } => {
                    if let Some(m) = after_writes {
                        if state != m.st || entries.as_ref().ok() != Some(&m.all()) {
                            rep.report(tail_vio(
                                rep,
                                "second-restart-state-differs",
                                format!("after recovery, writes, flush and another restart: {:?} {:?}; expected {:?} {:?}", state, entries, m.st, m.all()),
                                seed,
                                d,
                                trunc,
                            ));
                        }
                    }
                }
                other => rep.report(tail_vio(rep, "second-restart-fails", format!("second restart after recovery: {:?}", other), seed, d, trunc)),
            }
        }
        (Opened::Err(e), true) => {
            st.outcome("refused");
            rep.report(tail_vio(rep, "open-refused-torn-tail", format!("open refused a torn/zero tail: {}", e), seed, d, trunc));
        }
        (Opened::Err(_), false) => {
            st.outcome("refused-as-configured");
            if run.files_after != files {
                rep.report(tail_vio(
                    rep,
                    "refused-open-modified-files",
                    "truncation disabled: open refused but the files changed".to_string(),
                    seed,
                    d,
                    trunc,
                ));
            }
        }
        (Opened::Ok { .. }, false) => {
            st.outcome("accepted-with-truncation-disabled");
            rep.report(tail_vio(
                rep,
                "accepted-damaged-tail-with-truncation-disabled",
                "truncation disabled: open accepted an image with an incomplete/zero tail".to_string(),
                seed,
                d,
                trunc,
            ));
        }
    }
}

pub fn run_c10(rep: &Reporter, thorough: bool) -> Value {
    let seeds = gen_seeds(if thorough { 120 } else { 16 }, if thorough { 5 } else { 4 });
    let st = ImgStats::new();
    let mut work: Vec<(usize, TailDamage, bool, Option<usize>)> = vec![];
    // recovery under small read buffers: every cut, and zero tails of a few lengths
    let small_bufs: Vec<usize> = if thorough { vec![1, 16, 64] } else { vec![16] };
    for (si, s) in seeds.iter().enumerate() {
        let last = s.files.last().unwrap();
        let len = last.1.len();
        for cut in 0..=len {
            for t in [true, false] {
                work.push((si, TailDamage::Cut(cut), t, None));
            }
            for rb in &small_bufs {
                work.push((si, TailDamage::Cut(cut), true, Some(*rb)));
                if thorough {
                    work.push((si, TailDamage::Cut(cut), false, Some(*rb)));
                }
            }
        }
        let c = s.chunks.last().unwrap();
        let mut b = 0usize;
        let mut bounds = vec![0usize];
        for l in &c.lens {
            b += *l as usize;
            bounds.push(b);
        }
        for bd in bounds {
            let mut lens: Vec<usize> = (1..=64).collect();
            // around the read block (1 KiB) and the "large damaged section" threshold (64 KiB)
            lens.extend([1023, 1024, 1025, 33 * 1024, 65535, 65536, 65537, 128 * 1024 + 5]);
            for zl in lens {
                for t in [true, false] {
                    // zero tails with truncation disabled: a sample of lengths
                    if !t && !(zl <= 2 || zl == 28 || zl == 64 || zl == 1024) {
                        continue;
                    }
                    work.push((si, TailDamage::Zeros { boundary: bd, len: zl }, t, None));
                    if zl == 1 || zl == 15 || zl == 16 || zl == 17 || zl == 28 || zl == 1025 {
                        for rb in &small_bufs {
                            work.push((si, TailDamage::Zeros { boundary: bd, len: zl }, t, Some(*rb)));
                        }
                    }
                }
            }
        }
    }
    let idx = AtomicUsize::new(0);
    let threads = 2 * std::thread::available_parallelism().map(|n| n.get()).unwrap_or(8);
    std::thread::scope(|sc| {
        for _ in 0..threads {
            sc.spawn(|| loop {
                let i = idx.fetch_add(1, Ordering::Relaxed);
                if i >= work.len() {
                    break;
                }
                let (si, d, t, rb) = &work[i];
                check_tail_rbuf(rep, &seeds[*si], d, *t, *rb, &st);
            });
        }
    });
    // MiB scale (a handful of cases, sequential: each moves tens of MiB):
    // zero tails above 4 and 16 MiB at the last record boundary, and a 12 MiB last
    // record cut 64 KiB in, just above 8 MiB in, and 5 bytes before its end
    let mut mib_cases = 0u64;
    for s in seeds.iter().take(2) {
        let bd = s.files.last().unwrap().1.len();
        for zl in [(4usize << 20) + 1, (16 << 20) + 5] {
            check_tail(rep, s, &TailDamage::Zeros { boundary: bd, len: zl }, true, &st);
            mib_cases += 1;
        }
    }
    if let Some(big) = big_record_seed() {
        let len = big.files.last().unwrap().1.len();
        let rec_len = *big.chunks.last().unwrap().lens.last().unwrap() as usize;
        let start = len - rec_len;
        for cut in [start + 65536, start + (8 << 20) + 1, len - 5, len] {
            for t in [true, false] {
                check_tail(rep, &big, &TailDamage::Cut(cut), t, &st);
                mib_cases += 1;
            }
        }
        check_tail(rep, &big, &TailDamage::Zeros { boundary: len, len: (4 << 20) + 4097 }, true, &st);
        mib_cases += 1;
    } else {
        rep.report(Violation { prop: rep.prop.clone(), key: "big-record-seed-failed".into(), what: "a store with a 12 MiB entry could not be written, flushed and closed to a model-conformant image".into(), replay: json!({"engine":"imagex-tail","seed":"big"}) });
    }
    let distinct = st.distinct.lock().unwrap().len() as u64;
    json!({
        "mib_scale_cases": mib_cases,
        "states": distinct.max(1),
        "transitions": st.opens.load(Ordering::Relaxed).max(1),
        "traces_validated_against_impl": st.opens.load(Ordering::Relaxed),
        "exhaustive": true,
        "samples": seeds.iter().take(4).map(seed_json).collect::<Vec<_>>(),
        "seed_images": seeds.len(),
        "seed_layouts": seeds.iter().map(|s| s.sig.clone()).collect::<Vec<_>>(),
        "outcomes": *st.outcomes.lock().unwrap(),
        "recoveries_under_small_read_buffers": work.iter().filter(|w| w.3.is_some()).count(),
        "small_read_buffer_sizes": small_bufs,
        "explanation": "for every seed image (final directory of a real run, model journal attached): the newest chunk cut at EVERY byte position 0..=len and zero tails from EVERY record boundary (incl. 0) with lengths 1..64,1023,1024,1025,33792,65535,65536,65537,131077, each under truncate_incomplete_record true (all) and false (all cuts, sampled zero lengths); every damaged image is opened by the real RaftLog::open and compared with the state denoted by exactly the completely present records; then writes+flush and a second restart. 'states' = distinct damaged images, 'transitions' = recoveries executed.",
    })
}

// ---------------------------------------------------------------------------
// C09
// ---------------------------------------------------------------------------

fn mut_vio(rep: &Reporter, key: &str, what: String, seed: &Seed, file: usize, pos: usize, val: u8, rbuf: Option<usize>) -> Violation {
    Violation {
        prop: rep.prop.clone(),
        key: key.to_string(),
        what: format!(
            "{} | byte {} of {} ({} of {} files) := 0x{:02x} | opened with read_buffer_size {:?} | seed [{}] cfg {}",
            what,
            pos,
            seed.files[file].0,
            file + 1,
            seed.files.len(),
            val,
            rbuf,
            hist_short(&seed.hist),
            seed.cfg.short()
        ),
        replay: json!({"engine":"imagex-mutate","seed": seed_json(seed), "file": file, "pos": pos, "val": val, "read_buf": rbuf}),
    }
}

/// Is the mutated record indistinguishable from a torn tail, i.e. does the
/// public decoder report UnexpectedEof when decoding from the record's start
/// to the end of the file? (mechanism class of F10, computed independently
/// of the store)
fn looks_like_torn_tail(seed: &Seed, file: usize, pos: usize, bytes: &[u8]) -> bool {
    let c = &seed.chunks[file];
    let mut off = 0usize;
    for l in &c.lens {
        if pos < off + *l as usize {
            break;
        }
        off += *l as usize;
    }
    matches!(codecx::decode(&bytes[off..]), codecx::Dec::Err(std::io::ErrorKind::UnexpectedEof))
}

fn check_mutation(rep: &Reporter, seed: &Seed, file: usize, pos: usize, val: u8, rbuf: Option<usize>, st: &ImgStats) {
    let mut files = seed.files.clone();
    files[file].1[pos] = val;
    st.opens.fetch_add(1, Ordering::Relaxed);
    let open_cfg = if rbuf.is_some() { seed.cfg.with_read_buf(rbuf) } else { seed.cfg };
    let (run, _) = open_image(&files, &open_cfg, false);
    let newest = seed.files.len() - 1;
    let torn_like = looks_like_torn_tail(seed, file, pos, &files[file].1);
    match &run.opened {
        Opened::Panic(m) => {
            st.outcome("panic");
            rep.report(mut_vio(rep, "open-panics-on-corruption", format!("open panicked: {}", m), seed, file, pos, val, rbuf));
        }
        Opened::Ok { state, entries } => {
            if *state == seed.model.st && entries.as_ref().ok() == Some(&seed.model.all()) {
                st.outcome("ok-unchanged");
                // accepted with the original state: acceptable by the property
            } else {
                st.outcome("ok-different-state");
                let key = if torn_like && file == newest {
                    "F10a:corruption-indistinguishable-from-torn-tail-silently-truncated"
                } else {
                    "corruption-accepted-with-different-state"
                };
                rep.report(mut_vio(
                    rep,
                    key,
                    format!("open succeeded with state {:?} entries {:?}; written: {:?} {:?}", state, entries, seed.model.st, seed.model.all()),
                    seed,
                    file,
                    pos,
                    val,
                    rbuf,
                ));
            }
        }
        Opened::Err(_) => {
            st.outcome("refused");
            for (i, f) in files.iter().enumerate() {
                if i == newest {
                    continue;
                }
                let after = run.files_after.iter().find(|x| x.0 == f.0);
                if after.map(|a| &a.1) != Some(&f.1) {
                    let key = if torn_like && file == i {
                        "F10b:refused-open-truncated-older-chunk-at-corruption-indistinguishable-from-torn-tail"
                    } else {
                        "refused-open-modified-older-chunk"
                    };
                    rep.report(mut_vio(
                        rep,
                        key,
                        format!("open refused, but non-newest file {} was modified ({} -> {} bytes)", f.0, f.1.len(), after.map(|a| a.1.len()).unwrap_or(0)),
                        seed,
                        file,
                        pos,
                        val,
                        rbuf,
                    ));
                    break;
                }
            }
        }
    }
}

fn check_missing_middle(rep: &Reporter, seed: &Seed, st: &ImgStats) -> u64 {
    let mut n = 0;
    // the newest chunk as written, and as a crash right after its creation
    // leaves it: empty, or cut inside its first record
    let newest_len = seed.files.last().map(|f| f.1.len()).unwrap_or(0);
    let head_len = seed.chunks.last().map(|c| c.lens[0] as usize).unwrap_or(0);
    let mut newest_cuts: Vec<Option<usize>> = vec![None, Some(0)];
    if head_len > 1 {
        newest_cuts.push(Some(head_len / 2));
    }
    for (i, cut) in (1..seed.files.len().saturating_sub(1)).flat_map(|i| newest_cuts.iter().map(move |c| (i, *c))) {
        let mut files = seed.files.clone();
        if let Some(c) = cut {
            if c >= newest_len {
                continue;
            }
            files.last_mut().unwrap().1.truncate(c);
        }
        let removed = files.remove(i);
        st.opens.fetch_add(1, Ordering::Relaxed);
        n += 1;
        let (run, _) = open_image(&files, &seed.cfg, false);
        let mk = |key: &str, what: String| Violation {
            prop: rep.prop.clone(),
            key: key.to_string(),
            what: format!("{} | middle chunk {} removed, newest chunk cut at {:?} | seed [{}] cfg {}", what, removed.0, cut, hist_short(&seed.hist), seed.cfg.short()),
            replay: json!({"engine":"imagex-missing","seed": seed_json(seed), "removed": removed.0, "newest_cut": cut}),
        };
        match &run.opened {
            Opened::Err(_) => {
                st.outcome("missing-chunk-refused");
                let n = files.len();
                let older_same = files[..n - 1].iter().all(|f| run.files_after.iter().any(|g| g == f));
                if !older_same {
                    rep.report(mk("refused-open-modified-files", "open refused but a non-newest file changed".to_string()));
                }
            }
            Opened::Panic(m) => rep.report(mk("open-panics-on-missing-chunk", format!("open panicked: {}", m))),
            Opened::Ok { state, entries } => {
                st.outcome("missing-chunk-accepted");
                rep.report(mk("missing-middle-chunk-accepted", format!("open succeeded: {:?} {:?}", state, entries)))
            }
        }
    }
    n
}

/// Corrupt a closed chunk under an open store with an empty cache, then read.
fn check_live_reads(rep: &Reporter, seed: &Seed, vals_for: &dyn Fn(u8) -> Vec<u8>, st: &ImgStats) -> u64 {
    let mut n = 0u64;
    if seed.files.len() < 2 {
        return 0;
    }
    let cfg = seed.cfg.with_cache(Some(0), Some(0));
    for file in 0..seed.files.len() - 1 {
        let c = &seed.chunks[file];
        let mut off = 0usize;
        for (ri, r) in c.recs.iter().enumerate() {
            let len = c.lens[ri] as usize;
            if let MRec::Append(id, payload) = r {
                // only entries that are still live in the final state
                if seed.model.entries.get(&id.1).map(|e| e.0) == Some(*id) {
                    let dir = materialize(&seed.files);
                    let Ok(rl) = open_store(&dir.path, &cfg) else { off += len; continue };
                    rl.drain_cache_evictable();
                    let path = format!("{}/{}", dir.path, seed.files[file].0);
                    for pos in off..off + len {
                        let orig = seed.files[file].1[pos];
                        for val in vals_for(orig) {
                            let mut b = seed.files[file].1.clone();
                            b[pos] = val;
                            std::fs::write(&path, &b).unwrap();
                            st.opens.fetch_add(1, Ordering::Relaxed);
                            n += 1;
                            let got = read_range(&rl, id.1, id.1 + 1);
                            match got {
                                Err(e) if e.starts_with("PANIC") => rep.report(mut_vio(
                                    rep,
                                    "read-panics-on-corruption",
                                    format!("read({}) panicked: {}", id.1, e),
                                    seed,
                                    file,
                                    pos,
                                    val,
                                    None,
                                )),
                                Err(_) => st.outcome("live-read-refused"),
                                Ok(v) if v == vec![(*id, payload.clone())] => {
                                    // served from cache (entry pinned): nothing read from disk
                                    st.outcome("live-read-from-cache")
                                }
                                Ok(v) => rep.report(mut_vio(
                                    rep,
                                    "read-returns-corrupt-entry",
                                    format!("read({}) returned {:?}, written {:?}", id.1, v, (id, payload)),
                                    seed,
                                    file,
                                    pos,
                                    val,
                                    None,
                                )),
                            }
                        }
                    }
                    std::fs::write(&path, &seed.files[file].1).unwrap();
                    drop(rl);
                }
            }
            off += len;
        }
    }
    n
}

pub fn run_c09(rep: &Reporter, thorough: bool) -> Value {
    let seeds = gen_seeds(if thorough { 40 } else { 10 }, if thorough { 5 } else { 4 });
    let st = ImgStats::new();
    let vals_for = move |orig: u8| -> Vec<u8> {
        if thorough {
            (0..=255u8).filter(|x| *x != orig).collect()
        } else {
            let mut v: Vec<u8> = (0..8).map(|k| orig ^ (1 << k)).collect();
            for x in [0x00, 0xFF, orig.wrapping_add(1)] {
                if x != orig && !v.contains(&x) {
                    v.push(x);
                }
            }
            v
        }
    };
    // recovery under small read buffers (every record then straddles buffer
    // boundaries; short reads in the middle of a file): one bit flip per byte
    // (thorough: three values) per buffer size
    let small_bufs: Vec<usize> = if thorough { vec![1, 16, 64] } else { vec![16] };
    let mut work: Vec<(usize, usize, usize, u8, Option<usize>)> = vec![];
    for (si, s) in seeds.iter().enumerate() {
        for (fi, f) in s.files.iter().enumerate() {
            for pos in 0..f.1.len() {
                for v in vals_for(f.1[pos]) {
                    work.push((si, fi, pos, v, None));
                }
                for rb in &small_bufs {
                    let o = f.1[pos];
                    let vals: Vec<u8> = if thorough { vec![o ^ 1, o ^ 0x80, o.wrapping_add(1)] } else { vec![o ^ 1] };
                    for v in vals {
                        work.push((si, fi, pos, v, Some(*rb)));
                    }
                }
            }
        }
    }
    let idx = AtomicUsize::new(0);
    let threads = 2 * std::thread::available_parallelism().map(|n| n.get()).unwrap_or(8);
    let deadline = std::time::Instant::now() + std::time::Duration::from_secs(crate::checks::cap_secs(if thorough { 2400 } else { 90 }));
    let skipped = AtomicU64::new(0);
    std::thread::scope(|sc| {
        for _ in 0..threads {
            sc.spawn(|| loop {
                let i = idx.fetch_add(1, Ordering::Relaxed);
                if i >= work.len() {
                    break;
                }
                if std::time::Instant::now() > deadline {
                    skipped.fetch_add(1, Ordering::Relaxed);
                    continue;
                }
                let (si, fi, pos, v, rb) = work[i];
                check_mutation(rep, &seeds[si], fi, pos, v, rb, &st);
            });
        }
    });
    // a damaged record in front of a long zero tail (a crash on a file system that
    // persisted the size but not the data): the zeros must not hide the damage
    let mut flips_before_zero_tail = 0u64;
    for s in seeds.iter().take(2) {
        let newest = s.files.len() - 1;
        let len = s.files[newest].1.len();
        let rec_len = *s.chunks[newest].lens.last().unwrap() as usize;
        for pos in (len - rec_len)..len {
            let mut files = s.files.clone();
            files[newest].1[pos] ^= 1;
            files[newest].1.extend(std::iter::repeat(0u8).take((4 << 20) + 1));
            st.opens.fetch_add(1, Ordering::Relaxed);
            flips_before_zero_tail += 1;
            let (run, _) = open_image(&files, &s.cfg, false);
            let torn_like = looks_like_torn_tail(s, newest, pos, &files[newest].1);
            match &run.opened {
                Opened::Err(_) => st.outcome("refused"),
                Opened::Panic(m) => rep.report(mut_vio(rep, "open-panics-on-corruption", format!("open panicked: {} (the flipped record is followed by 4 MiB + 1 zeros)", m), s, newest, pos, files[newest].1[pos], None)),
                Opened::Ok { state, entries } => {
                    if *state == s.model.st && entries.as_ref().ok() == Some(&s.model.all()) {
                        st.outcome("ok-unchanged");
                    } else {
                        let key = if torn_like { "F10a:corruption-indistinguishable-from-torn-tail-silently-truncated" } else { "corruption-before-long-zero-tail-accepted" };
                        rep.report(mut_vio(rep, key, format!("open succeeded with state {:?} entries {:?}; written: {:?} {:?} (the flipped record is followed by 4 MiB + 1 zeros)", state, entries, s.model.st, s.model.all()), s, newest, pos, files[newest].1[pos], None));
                    }
                }
            }
        }
    }
    let mut missing = 0;
    let mut live = 0;
    let sidx = AtomicUsize::new(0);
    let live_ctr = AtomicU64::new(0);
    let missing_ctr = AtomicU64::new(0);
    std::thread::scope(|sc| {
        for _ in 0..threads {
            sc.spawn(|| loop {
                let i = sidx.fetch_add(1, Ordering::Relaxed);
                if i >= seeds.len() {
                    break;
                }
                missing_ctr.fetch_add(check_missing_middle(rep, &seeds[i], &st), Ordering::Relaxed);
                live_ctr.fetch_add(check_live_reads(rep, &seeds[i], &vals_for, &st), Ordering::Relaxed);
            });
        }
    });
    missing += missing_ctr.load(Ordering::Relaxed);
    live += live_ctr.load(Ordering::Relaxed);
    json!({
        "states": (work.len() as u64 + missing + live).max(1),
        "transitions": st.opens.load(Ordering::Relaxed).max(1),
        "traces_validated_against_impl": st.opens.load(Ordering::Relaxed),
        "exhaustive": skipped.load(Ordering::Relaxed) == 0,
        "mutations_skipped_by_wall_cap": skipped.load(Ordering::Relaxed),
        "samples": seeds.iter().take(4).map(seed_json).collect::<Vec<_>>(),
        "seed_images": seeds.len(),
        "seed_layouts": seeds.iter().map(|s| s.sig.clone()).collect::<Vec<_>>(),
        "single_byte_mutations_opened": work.len(),
        "flips_in_front_of_a_4MiB_zero_tail": flips_before_zero_tail,
        "of_which_opened_under_small_read_buffers": work.iter().filter(|w| w.4.is_some()).count(),
        "small_read_buffer_sizes": small_bufs,
        "middle_chunk_removals_opened": missing,
        "live_store_corrupt_then_read": live,
        "replacement_values_per_byte": if thorough { "all 255" } else { "8 bit flips + 0x00, 0xFF, +1" },
        "outcomes": *st.outcomes.lock().unwrap(),
        "explanation": "for every seed image: EVERY byte of EVERY chunk file (all bytes belong to complete records) is replaced by each value of the replacement set and the image is opened by the real RaftLog::open; Err, or Ok with the written state, is required, never a panic, and a refused open must leave every non-newest file byte-identical; every middle chunk is removed in turn; and under an open store with an empty cache every byte of every live entry's record in a closed chunk is corrupted on disk and the entry is read. 'states' = distinct mutated images, 'transitions' = opens/reads executed.",
    })
}

// ---------------------------------------------------------------------------
// replay of single cases
// ---------------------------------------------------------------------------

fn seed_from_json(v: &Value) -> Option<Seed> {
    let hist: Vec<Op> = v["history"].as_array()?.iter().map(crate::seqx::op_from_json).collect();
    let cfg = crate::seqx::cfg_from_json(&v["cfg"]);
    run_to_image(&hist, &cfg)
}

fn parse_damage(s: &str) -> Option<TailDamage> {
    let nums: Vec<usize> = s.split(|c: char| !c.is_ascii_digit()).filter(|x| !x.is_empty()).filter_map(|x| x.parse().ok()).collect();
    if s.starts_with("Cut") {
        Some(TailDamage::Cut(*nums.first()?))
    } else if s.starts_with("Zeros") {
        Some(TailDamage::Zeros { boundary: *nums.first()?, len: *nums.get(1)? })
    } else {
        None
    }
}

/// Re-executes one recorded imagex case against the current tree.
pub fn replay(rep: &Reporter, r: &Value) -> bool {
    let Some(seed) = seed_from_json(&r["seed"]) else {
        println!("REPLAY the seed history no longer produces an image on this tree");
        return false;
    };
    let st = ImgStats::new();
    match r["engine"].as_str().unwrap_or("") {
        "imagex-tail" => {
            let Some(d) = parse_damage(r["damage"].as_str().unwrap_or("")) else { return false };
            check_tail_rbuf(rep, &seed, &d, r["truncate"].as_bool().unwrap_or(true), r["read_buf"].as_u64().map(|x| x as usize), &st);
        }
        "imagex-mutate" => {
            let file = r["file"].as_u64().unwrap_or(0) as usize;
            let pos = r["pos"].as_u64().unwrap_or(0) as usize;
            if file >= seed.files.len() || pos >= seed.files[file].1.len() {
                println!("REPLAY the recorded byte position does not exist in the image produced by this tree");
                return false;
            }
            check_mutation(rep, &seed, file, pos, r["val"].as_u64().unwrap_or(0) as u8, r["read_buf"].as_u64().map(|x| x as usize), &st);
        }
        "imagex-missing" => {
            check_missing_middle(rep, &seed, &st);
        }
        "imagex-c15" => {
            let cfg = crate::seqx::cfg_from_json(&r["open_cfg"]);
            check_restart_cache(rep, &seed, r["cut"].as_u64().unwrap_or(0) as usize, &cfg, &st);
        }
        _ => return false,
    }
    true
}

// ---------------------------------------------------------------------------
// C15, restart dimension: cache accounting and the pinned-entries rule on a
// store recovered from a clean or torn image (the open chunk may be a re-opened
// one or a fresh one behind a truncated chunk)
// ---------------------------------------------------------------------------

fn c15_vio(rep: &Reporter, key: &str, what: String, seed: &Seed, cut: usize, cfg: &Cfg) -> Violation {
    Violation {
        prop: rep.prop.clone(),
        key: key.to_string(),
        what: format!("{} | newest chunk cut at {} of {} bytes, re-opened with cfg {} | seed [{}] cfg {}", what, cut, seed.files.last().unwrap().1.len(), cfg.short(), hist_short(&seed.hist), seed.cfg.short()),
        replay: json!({"engine":"imagex-c15","seed": seed_json(seed), "cut": cut, "open_cfg": cfg_to_json(cfg)}),
    }
}

/// One case. Returns false if the image could not be opened (judged by C10).
pub fn check_restart_cache(rep: &Reporter, seed: &Seed, cut: usize, cfg: &Cfg, st: &ImgStats) -> bool {
    use crate::seqx::check_cache;
    use crate::seqx::check_cache_pinned;
    let files = damaged(seed, &TailDamage::Cut(cut));
    let dir = ScratchDir::new();
    for (n, b) in &files {
        std::fs::write(format!("{}/{}", dir.path, n), b).unwrap();
    }
    st.opens.fetch_add(1, Ordering::Relaxed);
    let Ok(mut sut) = Sut::open_in(dir, *cfg) else {
        st.outcome("not-opened");
        return false;
    };
    // global offset of the live record of every entry the image holds
    let mut offset_of: BTreeMap<LogId, u64> = BTreeMap::new();
    for c in &seed.chunks {
        for (i, r) in c.recs.iter().enumerate() {
            if let MRec::Append(id, _) = r {
                offset_of.insert(*id, c.rec_start(i));
            }
        }
    }
    let c0 = sut.cache();
    if let Err(e) = check_cache(&c0) {
        rep.report(c15_vio(rep, "cache-accounting-after-restart", format!("right after open: {}", e), seed, cut, cfg));
        return true;
    }
    let state = sut.state();
    let term = state.last.map(|l| l.0).unwrap_or(1);
    let next = crate::model::next_index(state.last.as_ref());
    let vt = state.vote.map(|v| v.0).unwrap_or(0) + 1;
    let ops = vec![
        Op::Vote((vt, 9)),
        Op::Append(vec![((term, next), "r1".to_string())]),
        Op::Append(vec![((term, next + 1), "restart-2".to_string())]),
    ];
    for op in &ops {
        sut.rl().wait_worker_idle();
        let before = sut.cache().boundary;
        let r = sut.call(op);
        sut.rl().wait_worker_idle();
        let crate::sut::CallResult::Ok(seg) = &r else {
            st.outcome("write-after-restart-refused");
            return true; // C05/C10 judge usability
        };
        if let (Op::Append(es), Some(seg)) = (op, seg) {
            offset_of.insert(es[0].0, seg.offset);
        }
        let c = sut.cache();
        if let Err(e) = check_cache(&c) {
            rep.report(c15_vio(rep, "cache-accounting-after-restart", format!("after {}: {}", op.short(), e), seed, cut, cfg));
            return true;
        }
        if matches!(op, Op::Append(_)) {
            let mut at_write = c.clone();
            at_write.boundary = before;
            if let Err(e) = check_cache_pinned(&at_write) {
                rep.report(c15_vio(rep, "cache-over-limit-unpinned-after-restart", format!("after {}: {}", op.short(), e), seed, cut, cfg));
                return true;
            }
        }
    }
    if sut.flush_wait().is_err() {
        st.outcome("flush-after-restart-failed");
        return true;
    }
    sut.rl().drain_cache_evictable();
    let c = sut.cache();
    if let Err(e) = check_cache(&c) {
        rep.report(c15_vio(rep, "cache-accounting-after-restart", format!("after flush, idle and drain: {}", e), seed, cut, cfg));
        return true;
    }
    // everything in closed chunks is written and synced now: only entries of the
    // open chunk have to stay pinned
    let open_start = sut.rl().stat().open_chunk.global_start;
    for (id, _) in &c.resident {
        if Some(*id) <= c.boundary {
            rep.report(c15_vio(rep, "cache-drain-after-restart", format!("after idle + drain, resident {:?} is at or below the boundary {:?}", id, c.boundary), seed, cut, cfg));
            return true;
        }
        if let Some(off) = offset_of.get(id) {
            if *off < open_start {
                rep.report(c15_vio(
                    rep,
                    "cache-keeps-entries-of-closed-synced-chunks-pinned",
                    format!(
                        "after a flush was acknowledged, the worker went idle and evictable entries were drained, {:?} (record at offset {}, in a closed chunk; the open chunk starts at {}) is still resident: boundary {:?}, resident {:?}",
                        id, off, open_start, c.boundary, c.resident
                    ),
                    seed,
                    cut,
                    cfg,
                ));
                return true;
            }
        }
    }
    st.outcome("restart-cache-ok");
    true
}

pub fn run_c15_restart(rep: &Reporter, thorough: bool) -> Value {
    let seeds = gen_seeds(if thorough { 40 } else { 10 }, if thorough { 5 } else { 4 });
    let st = ImgStats::new();
    let caches: Vec<(Option<usize>, Option<usize>)> = vec![(Some(0), None), (Some(1), None), (None, Some(5))];
    let mut work: Vec<(usize, usize, Cfg)> = vec![];
    for (si, s) in seeds.iter().enumerate() {
        let c = s.chunks.last().unwrap();
        let len = s.files.last().unwrap().1.len();
        let mut cuts = BTreeSet::new();
        let mut b = 0usize;
        cuts.insert(len);
        for l in &c.lens {
            b += *l as usize;
            cuts.insert(b); // clean boundary
            if b + 3 <= len {
                cuts.insert(b + 3); // torn inside the next record
            }
        }
        for cut in cuts {
            for (items, cap) in &caches {
                // recovery under the seed's chunk limits and under the defaults (the
                // newest chunk then has room and is re-opened when healthy)
                work.push((si, cut, s.cfg.with_cache(*items, *cap)));
                work.push((si, cut, Cfg::default().with_cache(*items, *cap)));
            }
        }
    }
    let idx = AtomicUsize::new(0);
    let threads = 2 * std::thread::available_parallelism().map(|n| n.get()).unwrap_or(8);
    std::thread::scope(|sc| {
        for _ in 0..threads {
            sc.spawn(|| loop {
                let i = idx.fetch_add(1, Ordering::Relaxed);
                if i >= work.len() {
                    break;
                }
                let (si, cut, cfg) = &work[i];
                check_restart_cache(rep, &seeds[*si], *cut, cfg, &st);
            });
        }
    });
    json!({
        "restart_cases": work.len(),
        "seed_images": seeds.len(),
        "outcomes": *st.outcomes.lock().unwrap(),
        "explanation": "restart dimension: every seed image with its newest chunk cut at every record boundary (clean restart) and 3 bytes into every record (torn tail) is re-opened under {0 items, 1 item, 5 bytes} x {the seed's chunk limits, default limits}; after open, after a vote and two appends, and after flush + idle + drain the counters must equal the resident set; over-limit states may hold only entries above the boundary in force; after flush + idle + drain no entry whose record lies in a closed chunk may be resident",
    })
}
