//! `seqx` — explicit-state search over operation histories.
//!
//! Breadth-first over histories generated from a state-relative alphabet;
//! every history is executed on a fresh real store (worker pinned to the
//! eager policy by `wait_worker_idle` after every operation) under every
//! configuration of the check, compared step by step with the reference model,
//! and deduplicated by a canonical key.

use std::collections::HashSet;
use std::sync::atomic::AtomicU64;
use std::sync::atomic::AtomicUsize;
use std::sync::atomic::Ordering;
use std::sync::Mutex;
use std::time::Duration;
use std::time::Instant;

use serde_json::json;
use serde_json::Value;

use crate::alphabet;
use crate::alphabet::Alpha;
use crate::enc::MRec;
use crate::model::hist_short;
use crate::model::Journal;
use crate::model::Op;
use crate::model::Placed;
use crate::model::RefLog;
use crate::report::Fnv;
use crate::report::Reporter;
use crate::report::Violation;
use crate::sut::chunk_name;
use crate::sut::CacheObs;
use crate::sut::CallResult;
use crate::sut::Cfg;
use crate::sut::Sut;
use crate::vt::LogId;

#[derive(Clone, Debug, Default)]
pub struct Oracles {
    /// C01: results, state, every read range, chunk list
    pub semantics: bool,
    /// C11: dump == predicted journal, names, sizes, returned segments
    pub journal: bool,
    /// C02/C06: flush + drop + open at the end of every history
    pub restart_epilogue: bool,
    /// C06: a refused call changes nothing (incl. cache statistics)
    pub refused_no_trace: bool,
    /// C15: cache counters == resident set, only pinned over limit
    pub cache: bool,
    /// C16: panics are the violation (everything else is ignored)
    pub panics_only: bool,
    /// C15: additionally drain the evictable entries after EVERY operation (the
    /// worker is idle then) and require that nothing at or below the boundary
    /// stays resident
    pub drain_each: bool,
}

#[derive(Clone, Debug)]
pub struct SeqSpec {
    pub prop: String,
    pub alpha: Alpha,
    pub depth: usize,
    pub cfgs: Vec<Cfg>,
    pub reopen_cfgs: Vec<Cfg>,
    pub max_reopens: usize,
    /// how many refused operations a history may contain
    pub max_refused: usize,
    /// 0: single refused calls and batches whose first entry is refused;
    /// 1: + batches whose second entry is refused; 2: + rarer batch variants
    pub refused_level: u8,
    pub oracles: Oracles,
    /// stop generating new work after this wall time
    pub wall_cap: Duration,
    /// run C16 argument-grid probes at every state
    pub grid_probes: bool,
    /// additional start states: symbol sequences of the Legal alphabet,
    /// instantiated on the model; the search continues from each of them
    pub roots: Vec<Vec<&'static str>>,
    /// while instantiating a root, skip a symbol that is not applicable at that
    /// state instead of dropping the root (used by the periodic histories)
    pub roots_skip_inapplicable: bool,
}

#[derive(Default)]
pub struct SeqStats {
    pub states: AtomicU64,
    pub transitions: AtomicU64,
    pub runs: AtomicU64,
    pub probes: AtomicU64,
    pub refused_calls: AtomicU64,
    pub reopen_calls: AtomicU64,
    pub rotations: AtomicU64,
    pub chunk_removals: AtomicU64,
    pub lazy_eviction_states: AtomicU64,
}

pub struct RunOut {
    pub key: u64,
    pub api_hash: u64,
}

fn vio(spec: &SeqSpec, key: &str, what: String, hist: &[Op], cfg: &Cfg, extra: Value) -> Violation {
    Violation {
        prop: spec.prop.clone(),
        key: key.to_string(),
        what: format!("{} | history: [{}] | cfg: {}", what, hist_short(hist), cfg.short()),
        replay: json!({
            "engine": "seqx",
            "history": hist.iter().map(op_to_json).collect::<Vec<_>>(),
            "history_text": hist_short(hist),
            "cfg": cfg_to_json(cfg),
            "reopen_cfgs": spec.reopen_cfgs.iter().map(cfg_to_json).collect::<Vec<_>>(),
            "oracles": {
                "semantics": spec.oracles.semantics, "journal": spec.oracles.journal,
                "restart_epilogue": spec.oracles.restart_epilogue, "refused_no_trace": spec.oracles.refused_no_trace,
                "cache": spec.oracles.cache, "panics_only": spec.oracles.panics_only, "drain_each": spec.oracles.drain_each,
            },
            "extra": extra,
        }),
    }
}

pub fn op_to_json(op: &Op) -> Value {
    match op {
        Op::Vote(v) => json!({"op":"vote","v":[v.0,v.1]}),
        Op::Append(es) => json!({"op":"append","entries": es.iter().map(|(id,p)| json!([id.0,id.1,p])).collect::<Vec<_>>()}),
        Op::Truncate(i) => json!({"op":"truncate","index":i}),
        Op::Purge(id) => json!({"op":"purge","id":[id.0,id.1]}),
        Op::Commit(id) => json!({"op":"commit","id":[id.0,id.1]}),
        Op::UserData(u) => json!({"op":"user_data","v":u}),
        Op::Flush => json!({"op":"flush"}),
        Op::Reopen(n) => json!({"op":"reopen","cfg":n}),
    }
}

pub fn op_from_json(v: &Value) -> Op {
    let pair = |x: &Value| (x[0].as_u64().unwrap(), x[1].as_u64().unwrap());
    match v["op"].as_str().unwrap() {
        "vote" => Op::Vote(pair(&v["v"])),
        "append" => Op::Append(
            v["entries"]
                .as_array()
                .unwrap()
                .iter()
                .map(|e| ((e[0].as_u64().unwrap(), e[1].as_u64().unwrap()), e[2].as_str().unwrap().to_string()))
                .collect(),
        ),
        "truncate" => Op::Truncate(v["index"].as_u64().unwrap()),
        "purge" => Op::Purge(pair(&v["id"])),
        "commit" => Op::Commit(pair(&v["id"])),
        "user_data" => Op::UserData(v["v"].as_str().map(|s| s.to_string())),
        "flush" => Op::Flush,
        "reopen" => Op::Reopen(v["cfg"].as_u64().unwrap() as usize),
        x => panic!("unknown op {}", x),
    }
}

pub fn cfg_to_json(c: &Cfg) -> Value {
    json!({
        "max_records": c.max_records, "max_size": c.max_size,
        "cache_items": c.cache_items, "cache_cap": c.cache_cap,
        "read_buf": c.read_buf, "truncate_incomplete": c.truncate_incomplete,
        "start_offset": c.start_offset,
    })
}

pub fn cfg_from_json(v: &Value) -> Cfg {
    let u = |x: &Value| x.as_u64().map(|n| n as usize);
    Cfg {
        max_records: u(&v["max_records"]),
        max_size: u(&v["max_size"]),
        cache_items: u(&v["cache_items"]),
        cache_cap: u(&v["cache_cap"]),
        read_buf: u(&v["read_buf"]),
        truncate_incomplete: v["truncate_incomplete"].as_bool(),
        start_offset: v["start_offset"].as_u64(),
    }
}

/// Applies `op` to model and journal; returns (accepted, placements of the
/// records journalled for this call).
pub fn model_step(m: &mut RefLog, j: &mut Journal, op: &Op) -> (bool, Vec<Placed>) {
    let mut placed = vec![];
    match op {
        Op::Append(es) => {
            for e in es {
                let a = m.apply(&Op::Append(vec![e.clone()]));
                if !a.ok {
                    return (false, placed);
                }
                for r in &a.recs {
                    placed.push(j.append(r, &m.st));
                }
            }
            (true, placed)
        }
        Op::Flush => {
            j.on_flush_done();
            (true, placed)
        }
        Op::Reopen(_) => (true, placed),
        _ => {
            let a = m.apply(op);
            if !a.ok {
                return (false, placed);
            }
            for r in &a.recs {
                placed.push(j.append(r, &m.st));
            }
            if let (Op::Purge(u), false) = (op, a.recs.is_empty()) {
                j.on_purge(*u);
            }
            (true, placed)
        }
    }
}

pub fn check_cache(c: &CacheObs) -> Result<(), String> {
    let n = c.resident.len() as u64;
    let sz: u64 = c.resident.iter().map(|x| x.1).sum();
    if c.stat_items != n || c.item_count != n {
        return Err(format!(
            "reported item count {} (stat {}) != resident entries {}",
            c.item_count, c.stat_items, n
        ));
    }
    if c.stat_size != sz || c.total_size != sz {
        return Err(format!(
            "reported cache size {} (stat {}) != sum of resident payload sizes {} (resident {:?})",
            c.total_size, c.stat_size, sz, c.resident
        ));
    }
    if c.stat_boundary != c.boundary {
        return Err(format!("stat boundary {:?} != accessor boundary {:?}", c.stat_boundary, c.boundary));
    }
    Ok(())
}

/// "only pinned entries may exceed the limits", evaluated right after a write
pub fn check_cache_pinned(c: &CacheObs) -> Result<(), String> {
    let n = c.resident.len() as u64;
    let sz: u64 = c.resident.iter().map(|x| x.1).sum();
    if n > c.max_items || sz > c.capacity {
        for (id, _) in &c.resident {
            if Some(*id) <= c.boundary {
                return Err(format!(
                    "cache over limit (items {}/{} size {}/{}) while resident {:?} is at or below the evictable boundary {:?}",
                    n, c.max_items, sz, c.capacity, id, c.boundary
                ));
            }
        }
    }
    Ok(())
}

struct Snapshot {
    state: crate::enc::MState,
    entries: Result<Vec<(LogId, String)>, String>,
    cache: CacheObs,
    on_disk: u64,
    chunks: Vec<crate::sut::ChunkObs>,
}

fn snapshot(s: &Sut) -> Snapshot {
    Snapshot {
        state: s.state(),
        entries: s.read(0, u64::MAX),
        cache: s.cache(),
        on_disk: s.rl().on_disk_size(),
        chunks: s.chunks(),
    }
}

/// Executes one history under one configuration and evaluates the oracles
/// selected by `spec`.
pub fn run(spec: &SeqSpec, hist: &[Op], cfg: &Cfg, stats: &SeqStats) -> Result<RunOut, Violation> {
    let o = &spec.oracles;
    let mut sut = Sut::open(*cfg).map_err(|e| {
        vio(spec, "open-fresh", format!("opening a fresh directory failed: {}", e), hist, cfg, json!({}))
    })?;
    let mut m = RefLog::new();
    let mut j = Journal::new_at(cfg.limits(), cfg.start_offset.unwrap_or(0));
    let mut api = Fnv::new();
    let mut unflushed: u64 = 0;
    let mut cur_cfg = *cfg;

    for (i, op) in hist.iter().enumerate() {
        let is_last = i + 1 == hist.len();
        let upto = &hist[..=i];
        match op {
            Op::Flush => {
                sut.flush_wait().map_err(|e| vio(spec, "flush-failed", e, upto, cfg, json!({})))?;
                j.on_flush_done();
                unflushed = 0;
            }
            Op::Reopen(n) => {
                stats.reopen_calls.fetch_add(1, Ordering::Relaxed);
                let new_cfg = spec.reopen_cfgs[*n];
                sut.flush_wait().map_err(|e| vio(spec, "flush-failed", e, upto, cfg, json!({})))?;
                j.on_flush_done();
                unflushed = 0;
                let before_state = sut.state();
                let before_entries = sut.read(0, u64::MAX);
                let before_dump = sut.dump_string();
                let before_files = sut.files();
                if !o.panics_only {
                    let offline = sut.offline_dump();
                    if offline != before_dump || sut.files() != before_files {
                        return Err(vio(
                            spec,
                            "offline-dump-differs",
                            format!("standalone Dump of the closed directory {:?} != dump of the live store {:?} (files {:?} -> {:?})", offline, before_dump, before_files, sut.files()),
                            upto,
                            cfg,
                            json!({}),
                        ));
                    }
                }
                if let Err(e) = sut.reopen(new_cfg) {
                    return Err(vio(
                        spec,
                        "reopen-refused",
                        format!("clean restart failed: {}", e),
                        upto,
                        cfg,
                        json!({"new_cfg": cfg_to_json(&new_cfg)}),
                    ));
                }
                cur_cfg = new_cfg;
                j.on_reopen(new_cfg.limits());
                let after_state = sut.state();
                let after_entries = sut.read(0, u64::MAX);
                if !o.panics_only {
                    if before_state != after_state {
                        return Err(vio(
                            spec,
                            "restart-state-differs",
                            format!("state before restart {:?} != after {:?}", before_state, after_state),
                            upto,
                            cfg,
                            json!({"new_cfg": cfg_to_json(&new_cfg)}),
                        ));
                    }
                    if before_entries != after_entries {
                        let key = if after_entries.is_err() {
                            read_failure_key(&sut, &m, &j, upto, true)
                        } else {
                            "restart-entries-differ".to_string()
                        };
                        return Err(vio(
                            spec,
                            &key,
                            format!("entries before restart {:?} != after {:?}", before_entries, after_entries),
                            upto,
                            cfg,
                            json!({"new_cfg": cfg_to_json(&new_cfg)}),
                        ));
                    }
                    let after_dump = sut.dump_string();
                    if before_dump != after_dump {
                        return Err(vio(
                            spec,
                            "restart-dump-differs",
                            format!("dump before restart != after:\n{:?}\n{:?}", before_dump, after_dump),
                            upto,
                            cfg,
                            json!({"new_cfg": cfg_to_json(&new_cfg)}),
                        ));
                    }
                    let after_files = sut.files();
                    if before_files != after_files {
                        return Err(vio(
                            spec,
                            "restart-files-differ",
                            format!("files before restart {:?} != after {:?}", before_files, after_files),
                            upto,
                            cfg,
                            json!({"new_cfg": cfg_to_json(&new_cfg)}),
                        ));
                    }
                }
            }
            _ => {
                let model_before = m.clone();
                let (ok, placed) = model_step(&mut m, &mut j, op);
                // a refused call that journalled nothing must leave no trace at
                // all (before/after snapshot); a batch whose leading entries were
                // accepted is compared with the model that holds exactly them
                let snap = if o.refused_no_trace && !ok && placed.is_empty() {
                    Some(snapshot(&sut))
                } else {
                    None
                };
                if !ok {
                    stats.refused_calls.fetch_add(1, Ordering::Relaxed);
                }
                for p in &placed {
                    if p.rotated {
                        stats.rotations.fetch_add(1, Ordering::Relaxed);
                    }
                }
                unflushed += placed.len() as u64;
                if placed.iter().any(|p| p.rotated) {
                    unflushed = 0;
                }
                let boundary_before = if o.cache { Some(sut.cache().boundary) } else { None };
                let res = sut.call(op);
                sut.rl().wait_worker_idle();
                api.add_u64(res.is_ok() as u64);
                if let CallResult::Panic(msg) = &res {
                    return Err(vio(
                        spec,
                        &format!("panic:{}", op_class(op, &model_before)),
                        format!("{} panicked: {}", op.short(), msg),
                        upto,
                        cfg,
                        json!({}),
                    ));
                }
                if o.panics_only {
                    continue;
                }
                if ok != res.is_ok() {
                    // informational corner, see DESIGN C01
                    return Err(vio(
                        spec,
                        if ok { "accepted-write-refused" } else { "refused-write-accepted" },
                        format!(
                            "{}: specification says {}, store returned {:?}",
                            op.short(),
                            if ok { "Ok" } else { "Err" },
                            res
                        ),
                        upto,
                        cfg,
                        json!({}),
                    ));
                }
                if o.journal && ok {
                    if let (CallResult::Ok(Some(seg)), Some(p)) = (&res, placed.last()) {
                        if seg.offset != p.offset || seg.len != p.len {
                            return Err(vio(
                                spec,
                                if p.rotated { "segment-after-rotation" } else { "segment-mismatch" },
                                format!(
                                    "{} returned segment [{}, +{}) but its record is at [{}, +{}) (rotated={})",
                                    op.short(),
                                    seg.offset,
                                    seg.len,
                                    p.offset,
                                    p.len,
                                    p.rotated
                                ),
                                upto,
                                cfg,
                                json!({}),
                            ));
                        }
                    }
                }
                if let Some(before) = snap {
                    let after = snapshot(&sut);
                    let mut diffs = vec![];
                    if before.state != after.state {
                        diffs.push(format!("state {:?} -> {:?}", before.state, after.state));
                    }
                    if before.entries != after.entries {
                        diffs.push(format!("entries {:?} -> {:?}", before.entries, after.entries));
                    }
                    if before.cache.resident != after.cache.resident
                        || before.cache.stat_items != after.cache.stat_items
                        || before.cache.stat_size != after.cache.stat_size
                    {
                        diffs.push(format!(
                            "cache items {} size {} -> items {} size {}",
                            before.cache.stat_items, before.cache.stat_size, after.cache.stat_items, after.cache.stat_size
                        ));
                    }
                    if before.on_disk != after.on_disk {
                        diffs.push(format!("on_disk_size {} -> {}", before.on_disk, after.on_disk));
                    }
                    if before.chunks != after.chunks {
                        diffs.push("chunk list changed".to_string());
                    }
                    if !diffs.is_empty() {
                        return Err(vio(
                            spec,
                            "refused-write-left-trace",
                            format!("refused {} changed: {}", op.short(), diffs.join("; ")),
                            upto,
                            cfg,
                            json!({}),
                        ));
                    }
                }
                if o.cache {
                    let c = sut.cache();
                    check_cache(&c).map_err(|e| vio(spec, "cache-accounting", e, upto, cfg, json!({})))?;
                    // Eviction runs when an entry is inserted: the "only pinned
                    // entries over the limit" rule is evaluated after appends.
                    // Other writes do not consult the cache; evictable entries
                    // left over the limit after them are counted, not alarmed.
                    // (a multi-entry append that rotates the chunk on its way lets the
                    // worker move the boundary between its inserts: no single "boundary
                    // in force at that write" exists, the rule is not evaluated there)
                    let batch_rotated = matches!(op, Op::Append(es) if es.len() > 1) && placed.iter().any(|p| p.rotated);
                    if ok && matches!(op, Op::Append(_)) && !batch_rotated {
                        // boundary in force at the write = the one before the
                        // call (the worker was idle then)
                        let mut at_write = c.clone();
                        at_write.boundary = boundary_before.unwrap();
                        check_cache_pinned(&at_write).map_err(|e| vio(spec, "cache-over-limit-unpinned", e, upto, cfg, json!({})))?;
                    } else if is_last && check_cache_pinned(&c).is_err() {
                        stats.lazy_eviction_states.fetch_add(1, Ordering::Relaxed);
                    }
                    if o.drain_each {
                        sut.rl().drain_cache_evictable();
                        let c = sut.cache();
                        check_cache(&c).map_err(|e| vio(spec, "cache-accounting", e, upto, cfg, json!({"at":"after drain"})))?;
                        for (id, _) in &c.resident {
                            if Some(*id) <= c.boundary {
                                return Err(vio(
                                    spec,
                                    "cache-drain",
                                    format!("worker idle, drained after {}: resident {:?} is at or below the boundary {:?}", op.short(), id, c.boundary),
                                    upto,
                                    cfg,
                                    json!({}),
                                ));
                            }
                        }
                    }
                }
            }
        }
    }

    if o.panics_only {
        let mut k = Fnv::new();
        k.add_str(&format!("{:?}", m));
        k.add_str(&format!("{:?}", j));
        k.add_u64(unflushed);
        return Ok(RunOut { key: k.0, api_hash: 0 });
    }

    // ---- observations in the final state ---------------------------------
    let st = sut.state();
    if st != m.st && (o.semantics || o.journal) {
        return Err(vio(
            spec,
            "state-differs",
            format!("log_state {:?} != model {:?}", st, m.st),
            hist,
            cfg,
            json!({}),
        ));
    }
    api.add_str(&format!("{:?}", st));
    let last_idx = m.st.last.map(|l| l.1).unwrap_or(0);
    let hi = last_idx.saturating_add(2);
    let lo = m.entries.keys().next().copied().unwrap_or(0).saturating_sub(1);
    let mut ranges: Vec<(u64, u64)> = vec![(0, u64::MAX), (0, hi)];
    if hi - lo <= 24 {
        for a in lo..=hi {
            for b in a..=hi {
                ranges.push((a, b));
            }
        }
    } else {
        // long logs (bulk appends): every single index, and all ranges between the
        // boundary points (the ends, their neighbours, the middle, every 32nd index)
        let mut pts: Vec<u64> = vec![lo, lo + 1, lo + 2, (lo + hi) / 2, (lo + hi) / 2 + 1, hi - 3, hi - 2, hi - 1, hi];
        pts.extend((lo..=hi).step_by(32));
        pts.sort();
        pts.dedup();
        for i in lo..=hi {
            ranges.push((i, i + 1));
        }
        for (k, a) in pts.iter().enumerate() {
            for b in &pts[k..] {
                ranges.push((*a, *b));
            }
        }
    }
    for (a, b) in ranges {
        if !(o.semantics || o.journal) {
            break;
        }
        let got = sut.read(a, b);
        let want = m.read(a, b);
        if got.as_ref().ok() != Some(&want) {
            let key = read_failure_key(&sut, &m, &j, hist, got.is_err());
            return Err(vio(
                spec,
                &key,
                format!("read({},{}) = {:?}, model {:?}", a, b, got, want),
                hist,
                cfg,
                json!({}),
            ));
        }
    }
    api.add_str(&format!("{:?}", m.all()));
    // snapshot iteration (dump_data().iter()) must agree with range reads
    if o.semantics || o.journal {
        let snap = std::panic::catch_unwind(std::panic::AssertUnwindSafe(|| {
            let mut d = sut.rl().dump_data();
            let mut v = vec![];
            for item in d.iter() {
                match item {
                    Ok(x) => v.push(x),
                    Err(e) => return Err(format!("Err({:?}): {}", e.kind(), e)),
                }
            }
            Ok(v)
        }));
        let snap = match snap {
            Ok(x) => x,
            Err(p) => Err(format!("PANIC: {}", crate::sut::panic_msg(p))),
        };
        if snap.as_ref().ok() != Some(&m.all()) {
            let key = read_failure_key(&sut, &m, &j, hist, snap.is_err());
            return Err(vio(
                spec,
                &key,
                format!("dump_data().iter() = {:?}, model {:?}", snap, m.all()),
                hist,
                cfg,
                json!({"observer": "snapshot iteration"}),
            ));
        }
    }

    let chunks = sut.chunks();
    if o.semantics || o.journal {
        let want: Vec<(u64, u64, u64)> =
            j.chunks.iter().map(|c| (c.start, c.recs.len() as u64, c.end())).collect();
        let got: Vec<(u64, u64, u64)> = chunks.iter().map(|c| (c.start, c.records, c.end)).collect();
        if want != got {
            return Err(vio(
                spec,
                "chunk-list-differs",
                format!("stat chunks (start,records,end) {:?} != predicted {:?}", got, want),
                hist,
                cfg,
                json!({}),
            ));
        }
        for (c, mc) in chunks.iter().zip(j.chunks.iter()) {
            if mc.closed && c.last != mc.closing_last {
                return Err(vio(
                    spec,
                    "closed-chunk-state-differs",
                    format!("closed chunk {} reports last {:?}, predicted {:?}", c.start, c.last, mc.closing_last),
                    hist,
                    cfg,
                    json!({}),
                ));
            }
            if c.size != c.end - c.start {
                return Err(vio(spec, "chunk-size", format!("chunk {:?}", c), hist, cfg, json!({})));
            }
        }
        if sut.rl().on_disk_size() != j.on_disk_size() {
            return Err(vio(
                spec,
                "on-disk-size",
                format!("on_disk_size {} != predicted {}", sut.rl().on_disk_size(), j.on_disk_size()),
                hist,
                cfg,
                json!({}),
            ));
        }
    }
    let cache = sut.cache();
    if o.cache {
        check_cache(&cache).map_err(|e| vio(spec, "cache-accounting", e, hist, cfg, json!({})))?;
    }

    // ---- canonical key -----------------------------------------------------
    let mut k = Fnv::new();
    k.add_str(&format!("{:?}", m));
    k.add_str(&format!("{:?}", j));
    k.add_str(&format!("{:?}", cache.resident));
    k.add_str(&format!("{:?}", cache.boundary));
    k.add_u64(unflushed);
    k.add_str(&cur_cfg.short());
    let key = k.0;

    // ---- epilogue: flush, idle; journal exactness --------------------------
    if o.journal || o.restart_epilogue || o.cache {
        sut.flush_wait().map_err(|e| vio(spec, "flush-failed", e, hist, cfg, json!({"at":"epilogue"})))?;
        j.on_flush_done();
        stats.chunk_removals.fetch_add(j.removed.len() as u64, Ordering::Relaxed);
    }
    if o.cache {
        sut.rl().drain_cache_evictable();
        let c = sut.cache();
        check_cache(&c).map_err(|e| vio(spec, "cache-accounting", e, hist, cfg, json!({"at":"after drain"})))?;
        for (id, _) in &c.resident {
            if Some(*id) <= c.boundary {
                return Err(vio(
                    spec,
                    "cache-drain",
                    format!("after idle + drain, resident {:?} is at or below the boundary {:?}", id, c.boundary),
                    hist,
                    cfg,
                    json!({}),
                ));
            }
        }
    }
    if o.journal {
        check_journal(spec, &sut, &j, hist, cfg)?;
    }
    if o.restart_epilogue {
        let before_dump = sut.dump_string();
        let before_files = sut.files();
        let offline = sut.offline_dump();
        if offline != before_dump || sut.files() != before_files {
            return Err(vio(
                spec,
                "offline-dump-differs",
                format!("standalone Dump of the closed directory {:?} != dump of the live store {:?} (files {:?} -> {:?})", offline, before_dump, before_files, sut.files()),
                hist,
                cfg,
                json!({"at":"epilogue"}),
            ));
        }
        if let Err(e) = sut.reopen(cur_cfg) {
            return Err(vio(
                spec,
                "reopen-refused",
                format!("restart after flush failed: {}", e),
                hist,
                cfg,
                json!({"at":"epilogue"}),
            ));
        }
        let st2 = sut.state();
        let en2 = sut.read(0, u64::MAX);
        if st2 != m.st || en2.as_ref().ok() != Some(&m.all()) {
            let key = if st2 == m.st && en2.is_err() {
                read_failure_key(&sut, &m, &j, hist, true)
            } else {
                "restart-state-differs".to_string()
            };
            return Err(vio(
                spec,
                &key,
                format!("after restart state {:?} entries {:?}; model {:?} {:?}", st2, en2, m.st, m.all()),
                hist,
                cfg,
                json!({"at":"epilogue"}),
            ));
        }
        let after_dump = sut.dump_string();
        if before_dump != after_dump {
            return Err(vio(
                spec,
                "restart-dump-differs",
                format!("dump changed across restart: {:?} -> {:?}", before_dump, after_dump),
                hist,
                cfg,
                json!({"at":"epilogue"}),
            ));
        }
    }

    Ok(RunOut { key, api_hash: api.0 })
}

/// Live entries that were appended with a log id smaller than a log id that
/// had been appended (and since truncated away) before them: the entries the
/// id-based eviction boundary misjudges (F3).
pub fn reappended_below_highwater(hist: &[Op]) -> Vec<LogId> {
    let mut high: Option<LogId> = None;
    let mut out = vec![];
    let mut m = RefLog::new();
    for op in hist {
        if let Op::Append(es) = op {
            for (id, _) in es {
                if m.accepts(&Op::Append(vec![(*id, String::new())])) {
                    if Some(*id) <= high {
                        out.push(*id);
                    }
                    if Some(*id) > high {
                        high = Some(*id);
                    }
                    m.apply(&Op::Append(vec![(*id, String::new())]));
                } else {
                    break;
                }
            }
        } else {
            m.apply(op);
        }
    }
    out.retain(|id| m.entries.get(&id.1).map(|e| e.0) == Some(*id));
    out
}

/// Mechanism class of a failing read: which live entries cannot be read.
///
/// The known finding F3 is exactly: the eviction boundary is the one the
/// protocol prescribes (so the worker/open logic is intact), yet it covers an
/// entry that lives in the open chunk, because that entry was (re-)appended
/// with a log id at or below an id journalled before it. Anything else — a
/// boundary the protocol would not have installed, an unreadable entry in a
/// closed chunk, an entry above the boundary — is a different violation.
pub fn read_failure_key(sut: &Sut, m: &RefLog, j: &Journal, hist: &[Op], is_err: bool) -> String {
    let mut failing = vec![];
    for (i, (id, p)) in &m.entries {
        match sut.read(*i, *i + 1) {
            Ok(v) if v == vec![(*id, p.clone())] => {}
            _ => failing.push(*id),
        }
    }
    let f3 = reappended_below_highwater(hist);
    let actual = sut.cache().boundary;
    let in_open_chunk = |id: &LogId| j.open().recs.iter().any(|r| matches!(r, MRec::Append(x, _) if x == id));
    // a panic is never the recorded finding: F3 is an error result
    let panicked = m.entries.keys().any(|i| matches!(sut.read(*i, *i + 1), Err(e) if e.contains("PANIC")));
    if panicked {
        return "read-panics".to_string();
    }
    let f3_mechanism = !failing.is_empty()
        && is_err
        && actual == j.boundary_effective
        && failing.iter().all(|id| f3.contains(id) && Some(*id) <= actual && in_open_chunk(id));
    if f3_mechanism {
        "F3:read-error-on-entry-reappended-below-truncated-id".to_string()
    } else if is_err {
        "read-error".to_string()
    } else {
        "read-differs".to_string()
    }
}

/// classifies a panicking call by mechanism (known-finding key material)
pub fn op_class(op: &Op, m: &RefLog) -> String {
    match op {
        Op::Truncate(i) => {
            if *i == 0 && m.st.purged.is_some() {
                "truncate(0)-with-purged-prefix".to_string()
            } else {
                format!("truncate({})", i)
            }
        }
        Op::Purge(id) if id.1 == u64::MAX => "purge(index=u64::MAX)".to_string(),
        Op::Append(es) if es.iter().any(|e| e.0 .1 == u64::MAX) => "append(index=u64::MAX)".to_string(),
        other => other.short(),
    }
}

fn check_journal(spec: &SeqSpec, sut: &Sut, j: &Journal, hist: &[Op], cfg: &Cfg) -> Result<(), Violation> {
    let dump = sut.dump().map_err(|e| vio(spec, "dump-failed", e, hist, cfg, json!({})))?;
    let mut want: Vec<(u64, u64, u64, u64, MRec)> = vec![];
    for c in &j.chunks {
        for (i, r) in c.recs.iter().enumerate() {
            want.push((c.start, i as u64, c.rec_start(i), c.lens[i], r.clone()));
        }
    }
    let got: Vec<(u64, u64, u64, u64, Result<MRec, String>)> =
        dump.iter().map(|d| (d.chunk, d.idx, d.offset, d.len, d.rec.clone())).collect();
    let same = want.len() == got.len()
        && want.iter().zip(got.iter()).all(|(w, g)| {
            w.0 == g.0 && w.1 == g.1 && w.2 == g.2 && w.3 == g.3 && g.4.as_ref().ok() == Some(&w.4)
        });
    if !same {
        let f = |x: &(u64, u64, u64, u64, MRec)| format!("{}#{}@{}+{}:{}", x.0, x.1, x.2, x.3, x.4.short());
        let g = |x: &(u64, u64, u64, u64, Result<MRec, String>)| {
            format!(
                "{}#{}@{}+{}:{}",
                x.0,
                x.1,
                x.2,
                x.3,
                match &x.4 {
                    Ok(r) => r.short(),
                    Err(e) => format!("ERR {}", e),
                }
            )
        };
        return Err(vio(
            spec,
            "journal-differs",
            format!(
                "journal dump != predicted journal\n got: {:?}\nwant: {:?}",
                got.iter().map(g).collect::<Vec<_>>(),
                want.iter().map(f).collect::<Vec<_>>()
            ),
            hist,
            cfg,
            json!({}),
        ));
    }
    // files: names, abutting, sizes, bytes
    let files = sut.files();
    let want_files: Vec<(String, u64)> = j.chunks.iter().map(|c| (chunk_name(c.start), c.size())).collect();
    if files != want_files {
        return Err(vio(
            spec,
            "files-differ",
            format!("directory {:?} != predicted {:?}", files, want_files),
            hist,
            cfg,
            json!({}),
        ));
    }
    for c in &j.chunks {
        let p = format!("{}/{}", sut.dir.path, chunk_name(c.start));
        let b = std::fs::read(&p).unwrap_or_default();
        if b != c.bytes() {
            return Err(vio(
                spec,
                "file-bytes-differ",
                format!("bytes of {} differ from the predicted encoding", p),
                hist,
                cfg,
                json!({}),
            ));
        }
    }
    if sut.rl().on_disk_size() != j.on_disk_size() {
        return Err(vio(
            spec,
            "on-disk-size",
            format!("on_disk_size {} != predicted {}", sut.rl().on_disk_size(), j.on_disk_size()),
            hist,
            cfg,
            json!({}),
        ));
    }
    let total: u64 = files.iter().map(|f| f.1).sum();
    if total != j.on_disk_size() {
        return Err(vio(
            spec,
            "on-disk-size",
            format!("sum of file sizes {} != on_disk_size {}", total, j.on_disk_size()),
            hist,
            cfg,
            json!({}),
        ));
    }
    Ok(())
}

// ---------------------------------------------------------------------------
// search
// ---------------------------------------------------------------------------

#[derive(Clone)]
struct Node {
    hist: Vec<Op>,
    model: RefLog,
    reopens: usize,
    refused: usize,
}

pub struct SeqResult {
    pub states: u64,
    pub transitions: u64,
    pub runs: u64,
    pub probes: u64,
    pub depth_completed: usize,
    pub cap_hit: bool,
    pub per_depth: Vec<(usize, u64, u64)>,
    pub samples: Vec<Value>,
    pub distinct_api_outcomes: u64,
    pub machinery_error: Option<String>,
    pub stats: SeqStats,
}

fn successors(spec: &SeqSpec, n: &Node) -> Vec<(String, Op, bool)> {
    let mut v: Vec<(String, Op, bool)> =
        alphabet::legal(&n.model, spec.alpha).into_iter().map(|(s, o)| (s.to_string(), o, false)).collect();
    if n.reopens < spec.max_reopens {
        for i in 0..spec.reopen_cfgs.len() {
            v.push((format!("reopen{}", i), Op::Reopen(i), false));
        }
    }
    if n.refused < spec.max_refused {
        for (s, o) in alphabet::refused(&n.model, spec.refused_level) {
            v.push((s.to_string(), o, true));
        }
    }
    v
}

// ---- executor processes ---------------------------------------------------
//
// Every execution opens a real store (one thread spawn, a dozen file-system
// calls, 1 ms idle polls). Many threads doing that inside one process contend
// on the process's address-space lock, so executions are farmed out to
// single-threaded executor processes (`vx seqx-worker`), one per search
// thread, over line-delimited JSON on pipes.

pub struct Exec {
    child: std::process::Child,
    stdin: std::process::ChildStdin,
    stdout: std::io::BufReader<std::process::ChildStdout>,
}

impl Exec {
    pub fn spawn(prop: &str, tier: &str, phase: usize) -> Exec {
        use std::process::Command;
        use std::process::Stdio;
        let exe = std::env::current_exe().expect("current_exe");
        let mut child = Command::new(exe)
            .args(["seqx-worker", prop, tier, &phase.to_string()])
            .stdin(Stdio::piped())
            .stdout(Stdio::piped())
            .spawn()
            .expect("spawn executor");
        let stdin = child.stdin.take().unwrap();
        let stdout = std::io::BufReader::new(child.stdout.take().unwrap());
        Exec { child, stdin, stdout }
    }

    pub fn call(&mut self, req: &Value) -> Result<Value, String> {
        use std::io::BufRead;
        use std::io::Write;
        let line = req.to_string();
        self.stdin.write_all(line.as_bytes()).map_err(|e| e.to_string())?;
        self.stdin.write_all(b"\n").map_err(|e| e.to_string())?;
        self.stdin.flush().map_err(|e| e.to_string())?;
        let mut resp = String::new();
        let n = self.stdout.read_line(&mut resp).map_err(|e| e.to_string())?;
        if n == 0 {
            return Err("executor process died".to_string());
        }
        serde_json::from_str(&resp).map_err(|e| format!("bad executor response: {}", e))
    }
}

impl Drop for Exec {
    fn drop(&mut self) {
        let _ = self.child.kill();
        let _ = self.child.wait();
    }
}

fn vio_to_json(v: &Violation) -> Value {
    json!({"prop": v.prop, "key": v.key, "what": v.what, "replay": v.replay})
}

fn vio_from_json(v: &Value) -> Violation {
    Violation {
        prop: v["prop"].as_str().unwrap_or("").to_string(),
        key: v["key"].as_str().unwrap_or("").to_string(),
        what: v["what"].as_str().unwrap_or("").to_string(),
        replay: v["replay"].clone(),
    }
}

fn stats_to_json(st: &SeqStats) -> Value {
    json!({
        "runs": st.runs.load(Ordering::Relaxed),
        "probes": st.probes.load(Ordering::Relaxed),
        "refused": st.refused_calls.load(Ordering::Relaxed),
        "reopens": st.reopen_calls.load(Ordering::Relaxed),
        "rotations": st.rotations.load(Ordering::Relaxed),
        "removals": st.chunk_removals.load(Ordering::Relaxed),
        "lazy": st.lazy_eviction_states.load(Ordering::Relaxed),
    })
}

fn stats_add(st: &SeqStats, v: &Value) {
    let g = |k: &str| v[k].as_u64().unwrap_or(0);
    st.runs.fetch_add(g("runs"), Ordering::Relaxed);
    st.probes.fetch_add(g("probes"), Ordering::Relaxed);
    st.refused_calls.fetch_add(g("refused"), Ordering::Relaxed);
    st.reopen_calls.fetch_add(g("reopens"), Ordering::Relaxed);
    st.rotations.fetch_add(g("rotations"), Ordering::Relaxed);
    st.chunk_removals.fetch_add(g("removals"), Ordering::Relaxed);
    st.lazy_eviction_states.fetch_add(g("lazy"), Ordering::Relaxed);
}

/// Executor side: one history under every configuration of the spec.
pub fn exec_run(spec: &SeqSpec, hist: &[Op]) -> Value {
    let stats = SeqStats::default();
    let mut key = Fnv::new();
    let mut api_first: Option<u64> = None;
    let mut vios: Vec<Violation> = vec![];
    for cfg in &spec.cfgs {
        stats.runs.fetch_add(1, Ordering::Relaxed);
        match run(spec, hist, cfg, &stats) {
            Ok(out) => {
                key.add_u64(out.key);
                match api_first {
                    None => api_first = Some(out.api_hash),
                    Some(h) => {
                        if h != out.api_hash && !spec.oracles.panics_only {
                            vios.push(vio(
                                spec,
                                "config-differential",
                                "API observations differ between chunk configurations".to_string(),
                                hist,
                                cfg,
                                json!({}),
                            ));
                        }
                    }
                }
            }
            Err(v) => vios.push(v),
        }
    }
    json!({
        "key": key.0,
        "api": api_first,
        "vios": vios.iter().map(vio_to_json).collect::<Vec<_>>(),
        "stats": stats_to_json(&stats),
    })
}

/// Executor side: the argument grid at the state reached by `hist`.
pub fn exec_grid(spec: &SeqSpec, hist: &[Op]) -> Value {
    let stats = SeqStats::default();
    let mut m = RefLog::new();
    for op in hist {
        m.apply(op);
    }
    let mut vios = vec![];
    crate::probes::run_grid(spec, hist, &m, &mut vios, &stats);
    json!({
        "vios": vios.iter().map(vio_to_json).collect::<Vec<_>>(),
        "stats": stats_to_json(&stats),
    })
}

/// `vx seqx-worker`: serves requests until stdin closes.
pub fn worker_loop(spec: &SeqSpec) {
    use std::io::BufRead;
    use std::io::Write;
    let stdin = std::io::stdin();
    let stdout = std::io::stdout();
    for line in stdin.lock().lines() {
        let Ok(line) = line else { break };
        let Ok(req) = serde_json::from_str::<Value>(&line) else { break };
        let hist: Vec<Op> = req["hist"].as_array().map(|a| a.iter().map(op_from_json).collect()).unwrap_or_default();
        let resp = match req["t"].as_str() {
            Some("run") => exec_run(spec, &hist),
            Some("grid") => exec_grid(spec, &hist),
            _ => json!({"error": "bad request"}),
        };
        let mut o = stdout.lock();
        let _ = o.write_all(resp.to_string().as_bytes());
        let _ = o.write_all(b"\n");
        let _ = o.flush();
    }
}

pub fn search(spec: &SeqSpec, rep: &Reporter, phase: usize) -> SeqResult {
    let stats = SeqStats::default();
    let started = Instant::now();
    let seen: Mutex<HashSet<u64>> = Mutex::new(HashSet::new());
    let api_outcomes: Mutex<HashSet<u64>> = Mutex::new(HashSet::new());
    let samples: Mutex<Vec<Value>> = Mutex::new(vec![]);
    let machinery_error: Mutex<Option<String>> = Mutex::new(None);
    let mut frontier = vec![Node {
        hist: vec![],
        model: RefLog::new(),
        reopens: 0,
        refused: 0,
    }];
    for root in &spec.roots {
        let mut m = RefLog::new();
        let mut hist = vec![];
        let mut ok = true;
        for sym in root {
            let found = alphabet::legal(&m, Alpha::Legal)
                .into_iter()
                .find(|(n, _)| n == sym)
                .or_else(|| alphabet::legal(&m, Alpha::Scale).into_iter().find(|(n, _)| n == sym));
            match found {
                Some((_, op)) => {
                    m.apply(&op);
                    hist.push(op);
                }
                None if spec.roots_skip_inapplicable => continue,
                None => {
                    ok = false;
                    break;
                }
            }
        }
        if ok {
            frontier.push(Node { hist, model: m, reopens: 0, refused: 0 });
        }
    }
    let mut per_depth = vec![];
    let mut depth_completed = 0;
    let mut cap_hit = false;
    // executions spend most of their wall time in the store's 1 ms idle polls
    let threads = std::env::var("VX_THREADS")
        .ok()
        .and_then(|s| s.parse().ok())
        .unwrap_or_else(|| 3 * std::thread::available_parallelism().map(|n| n.get()).unwrap_or(8));
    let execs: Vec<Mutex<Exec>> = (0..threads).map(|_| Mutex::new(Exec::spawn(&spec.prop, &rep.tier, phase))).collect();

    let do_grid = |ex: &mut Exec, node: &Node| {
        let req = json!({"t":"grid","hist": node.hist.iter().map(op_to_json).collect::<Vec<_>>()});
        match ex.call(&req) {
            Ok(resp) => {
                for v in resp["vios"].as_array().cloned().unwrap_or_default() {
                    rep.report(vio_from_json(&v));
                }
                stats_add(&stats, &resp["stats"]);
            }
            Err(e) => {
                *machinery_error.lock().unwrap() =
                    Some(format!("{} while probing after history [{}]", e, hist_short(&node.hist)));
            }
        }
    };

    for depth in 1..=spec.depth {
        let next: Mutex<Vec<Node>> = Mutex::new(vec![]);
        let idx = AtomicUsize::new(0);
        let t0 = stats.transitions.load(Ordering::Relaxed);
        let s0 = stats.states.load(Ordering::Relaxed);
        let capped = std::sync::atomic::AtomicBool::new(false);
        std::thread::scope(|sc| {
            for t in 0..threads {
                let execs = &execs;
                let frontier = &frontier;
                let idx = &idx;
                let capped = &capped;
                let next = &next;
                let seen = &seen;
                let api_outcomes = &api_outcomes;
                let samples = &samples;
                let stats = &stats;
                let machinery_error = &machinery_error;
                let do_grid = &do_grid;
                sc.spawn(move || {
                    let mut ex = execs[t].lock().unwrap();
                    loop {
                        let i = idx.fetch_add(1, Ordering::Relaxed);
                        if i >= frontier.len() || machinery_error.lock().unwrap().is_some() {
                            break;
                        }
                        if started.elapsed() > spec.wall_cap {
                            capped.store(true, Ordering::Relaxed);
                            break;
                        }
                        let node = &frontier[i];
                        if spec.grid_probes {
                            do_grid(&mut ex, node);
                        }
                        for (sym, op, is_refused) in successors(spec, node) {
                            let mut hist = node.hist.clone();
                            hist.push(op.clone());
                            let req = json!({"t":"run","hist": hist.iter().map(op_to_json).collect::<Vec<_>>()});
                            let resp = match ex.call(&req) {
                                Ok(r) => r,
                                Err(e) => {
                                    *machinery_error.lock().unwrap() =
                                        Some(format!("{} while executing history [{}]", e, hist_short(&hist)));
                                    // the executor is gone; replace it for later phases
                                    *ex = Exec::spawn(&spec.prop, &rep.tier, phase);
                                    break;
                                }
                            };
                            stats_add(stats, &resp["stats"]);
                            stats.transitions.fetch_add(1, Ordering::Relaxed);
                            let vios = resp["vios"].as_array().cloned().unwrap_or_default();
                            for v in &vios {
                                rep.report(vio_from_json(v));
                            }
                            if let Some(h) = resp["api"].as_u64() {
                                api_outcomes.lock().unwrap().insert(h);
                            }
                            if !vios.is_empty() {
                                // do not extend histories that already violate
                                continue;
                            }
                            let key = resp["key"].as_u64().unwrap_or(0);
                            let mut model = node.model.clone();
                            model.apply(&op);
                            let fresh = seen.lock().unwrap().insert(key);
                            if fresh {
                                stats.states.fetch_add(1, Ordering::Relaxed);
                                {
                                    let mut s = samples.lock().unwrap();
                                    if s.len() < 5 && hist.len() >= spec.depth.min(3) {
                                        s.push(json!({"history": hist_short(&hist), "last_symbol": sym,
                                            "model_state": format!("{:?}", model.st)}));
                                    }
                                }
                                next.lock().unwrap().push(Node {
                                    hist,
                                    model,
                                    reopens: node.reopens + matches!(op, Op::Reopen(_)) as usize,
                                    refused: node.refused + is_refused as usize,
                                });
                            }
                        }
                    }
                });
            }
        });
        let t1 = stats.transitions.load(Ordering::Relaxed);
        let s1 = stats.states.load(Ordering::Relaxed);
        per_depth.push((depth, s1 - s0, t1 - t0));
        if capped.load(Ordering::Relaxed) || machinery_error.lock().unwrap().is_some() {
            cap_hit = true;
            break;
        }
        depth_completed = depth;
        frontier = next.into_inner().unwrap();
        // deterministic order for the next level
        frontier.sort_by(|a, b| format!("{:?}", a.hist).cmp(&format!("{:?}", b.hist)));
        if frontier.is_empty() {
            break;
        }
    }
    // grid probes also at the deepest level reached
    if spec.grid_probes && !cap_hit {
        let idx = AtomicUsize::new(0);
        std::thread::scope(|sc| {
            for t in 0..threads {
                let execs = &execs;
                let frontier = &frontier;
                let idx = &idx;
                let do_grid = &do_grid;
                sc.spawn(move || {
                    let mut ex = execs[t].lock().unwrap();
                    loop {
                        let i = idx.fetch_add(1, Ordering::Relaxed);
                        if i >= frontier.len() || started.elapsed() > spec.wall_cap {
                            break;
                        }
                        do_grid(&mut ex, &frontier[i]);
                    }
                });
            }
        });
        if started.elapsed() > spec.wall_cap {
            cap_hit = true;
        }
    }
    let machinery_error = machinery_error.into_inner().unwrap();

    SeqResult {
        states: stats.states.load(Ordering::Relaxed),
        transitions: stats.transitions.load(Ordering::Relaxed),
        runs: stats.runs.load(Ordering::Relaxed),
        probes: stats.probes.load(Ordering::Relaxed),
        depth_completed,
        cap_hit,
        per_depth,
        samples: samples.into_inner().unwrap(),
        distinct_api_outcomes: api_outcomes.into_inner().unwrap().len() as u64,
        machinery_error,
        stats,
    }
}
