//! `codecx` — bounded-exhaustive enumeration of the record codec (C12).

use std::panic::catch_unwind;
use std::panic::AssertUnwindSafe;
use std::sync::atomic::AtomicU64;
use std::sync::atomic::AtomicUsize;
use std::sync::atomic::Ordering;
use std::sync::Mutex;

use raft_log::codeq::Decode;
use raft_log::codeq::Encode;
use raft_log::WALRecord;
use serde_json::json;
use serde_json::Value;

use crate::enc;
use crate::enc::MRec;
use crate::enc::MState;
use crate::report::Reporter;
use crate::report::Violation;
use crate::sut::panic_msg;
use crate::vt::VT;

pub const INTS: [u64; 8] = [0, 1, 255, 256, (1 << 32) - 1, 1 << 32, 1 << 63, u64::MAX];

fn text(len: usize, salt: usize) -> String {
    // valid UTF-8 of exactly `len` bytes, with multi-byte characters when
    // the length allows
    let mut s = String::with_capacity(len);
    let mut i = 0usize;
    while s.len() < len {
        let rest = len - s.len();
        if rest >= 2 && (i + salt) % 7 == 3 {
            s.push('é');
        } else if rest >= 3 && (i + salt) % 11 == 5 {
            s.push('€');
        } else {
            s.push((b'a' + ((i + salt) % 26) as u8) as char);
        }
        i += 1;
    }
    s
}

/// The structured record space of C12. `small` keeps payloads <= 256 bytes.
pub fn structured_records(small: bool) -> Vec<MRec> {
    let mut v = vec![];
    let pairs: Vec<(u64, u64)> = INTS.iter().flat_map(|a| INTS.iter().map(move |b| (*a, *b))).collect();
    for p in &pairs {
        v.push(MRec::Vote(*p));
        v.push(MRec::Commit(*p));
        v.push(MRec::PurgeUpto(*p));
        v.push(MRec::TruncateAfter(Some(*p)));
    }
    v.push(MRec::TruncateAfter(None));
    let lens: &[usize] = if small { &[0, 1, 2, 3, 255, 256] } else { &[0, 1, 2, 3, 255, 256, 4096, 65536] };
    for (i, p) in pairs.iter().enumerate() {
        for l in lens {
            // large payloads only for a diagonal of the id grid
            if *l > 256 && i % 9 != 0 {
                continue;
            }
            v.push(MRec::Append(*p, text(*l, i)));
        }
    }
    // State: every Some/None combination of the five optional fields
    let diag: Vec<(u64, u64)> = (0..8).map(|i| (INTS[i], INTS[7 - i])).collect();
    let ulens: &[usize] = if small { &[0, 1, 255] } else { &[0, 1, 255, 4096] };
    for mask in 0..32u32 {
        for (k, d) in diag.iter().enumerate() {
            for ul in ulens {
                let d2 = diag[(k + 3) % 8];
                let st = MState {
                    vote: if mask & 1 != 0 { Some(*d) } else { None },
                    last: if mask & 2 != 0 { Some(d2) } else { None },
                    committed: if mask & 4 != 0 { Some((d.1, d.0)) } else { None },
                    purged: if mask & 8 != 0 { Some((d2.1, d2.0)) } else { None },
                    user_data: if mask & 16 != 0 { Some(text(*ul, k)) } else { None },
                };
                if mask & 16 == 0 && *ul != 0 {
                    continue;
                }
                v.push(MRec::State(st));
            }
        }
    }
    v
}

#[derive(Debug)]
pub enum Dec {
    Ok { rec: MRec, consumed: usize, reencoded: Vec<u8> },
    Err(std::io::ErrorKind),
    Panic(String),
}

/// Decodes from `buf` through a slice reader, so the number of bytes the
/// decoder consumed is observable.
pub fn decode(buf: &[u8]) -> Dec {
    let r = catch_unwind(AssertUnwindSafe(|| {
        let mut rd: &[u8] = buf;
        let res = WALRecord::<VT>::decode(&mut rd);
        (res, buf.len() - rd.len())
    }));
    match r {
        Err(p) => Dec::Panic(panic_msg(p)),
        Ok((Err(e), _)) => Dec::Err(e.kind()),
        Ok((Ok(rec), consumed)) => {
            let mut out = vec![];
            match catch_unwind(AssertUnwindSafe(|| rec.encode(&mut out))) {
                Ok(Ok(_)) => Dec::Ok {
                    rec: enc::from_real(&rec),
                    consumed,
                    reencoded: out,
                },
                Ok(Err(e)) => Dec::Panic(format!("re-encode failed: {}", e)),
                Err(p) => Dec::Panic(format!("re-encode panicked: {}", panic_msg(p))),
            }
        }
    }
}

/// A reader that hands out at most `max` bytes per `read` call (a legal
/// `io::Read`: short reads are allowed anywhere, e.g. at buffer boundaries).
struct Dribble<'a> {
    buf: &'a [u8],
    pos: usize,
    max: usize,
}

impl std::io::Read for Dribble<'_> {
    fn read(&mut self, out: &mut [u8]) -> std::io::Result<usize> {
        let n = out.len().min(self.max).min(self.buf.len() - self.pos);
        out[..n].copy_from_slice(&self.buf[self.pos..self.pos + n]);
        self.pos += n;
        Ok(n)
    }
}

/// Decodes through a reader with the given read granularity; returns the
/// record (model form) and the number of bytes consumed, or the error kind.
fn decode_dribbled(buf: &[u8], max: usize) -> Result<(MRec, usize), String> {
    let r = catch_unwind(AssertUnwindSafe(|| {
        let mut rd = Dribble { buf, pos: 0, max };
        let res = WALRecord::<VT>::decode(&mut rd);
        (res, rd.pos)
    }));
    match r {
        Err(p) => Err(format!("PANIC: {}", panic_msg(p))),
        Ok((Err(e), _)) => Err(format!("{:?}", e.kind())),
        Ok((Ok(rec), consumed)) => Ok((enc::from_real(&rec), consumed)),
    }
}

fn hex(b: &[u8]) -> String {
    let n = b.len().min(96);
    let mut s: String = b[..n].iter().map(|x| format!("{:02x}", x)).collect();
    if b.len() > n {
        s.push_str(&format!("..({} bytes)", b.len()));
    }
    s
}

pub struct CodecStats {
    pub records: AtomicU64,
    pub decodes: AtomicU64,
    pub prefixes: AtomicU64,
    pub mutations: AtomicU64,
    pub mutations_accepted: AtomicU64,
    pub arbitrary: AtomicU64,
    pub arbitrary_accepted: AtomicU64,
}

fn mk(rep: &Reporter, key: &str, what: String, bytes: &[u8]) -> Violation {
    Violation {
        prop: rep.prop.clone(),
        key: key.to_string(),
        what,
        replay: json!({"engine":"codecx","bytes_hex": bytes.iter().map(|x| format!("{:02x}", x)).collect::<String>()}),
    }
}

/// oracle for an arbitrary input: no panic; Ok => canonical and within bounds
fn judge(rep: &Reporter, input: &[u8], what: &str) -> bool {
    match decode(input) {
        Dec::Panic(m) => {
            rep.report(mk(rep, "decode-panic", format!("decode panicked on {} {}: {}", what, hex(input), m), input));
            false
        }
        Dec::Err(_) => false,
        Dec::Ok { consumed, reencoded, .. } => {
            if consumed > input.len() || reencoded != input[..consumed] {
                rep.report(mk(
                    rep,
                    "decode-not-canonical",
                    format!(
                        "decode accepted {} {} (consumed {}), but the record re-encodes to {}",
                        what,
                        hex(input),
                        consumed,
                        hex(&reencoded)
                    ),
                    input,
                ));
            }
            true
        }
    }
}

fn positions(len: usize) -> Vec<usize> {
    if len <= 512 {
        (0..len).collect()
    } else {
        let mut v: Vec<usize> = (0..64).collect();
        v.extend((64..len - 64).step_by(97));
        v.extend(len - 64..len);
        v
    }
}

/// Round trip, trailing garbage, a chunked reader and three prefixes for one
/// record with a payload of `n` bytes (the full per-record treatment would
/// decode hundreds of thousands of prefixes of that size).
fn check_huge_record(rep: &Reporter, n: usize, st: &CodecStats) {
    st.records.fetch_add(1, Ordering::Relaxed);
    let payload: String = std::iter::repeat("0123456789abcdef").take(n / 16 + 1).collect::<String>()[..n].to_string();
    let r = MRec::Append((7, 9), payload);
    let mut bytes = enc::encode(&r);
    let len = bytes.len();
    let what = format!("record with a payload of {} bytes ({} encoded)", n, len);
    st.decodes.fetch_add(1, Ordering::Relaxed);
    match decode(&bytes) {
        Dec::Ok { rec, consumed, reencoded } if rec == r && consumed == len && reencoded == bytes => {}
        other => {
            rep.report(mk(rep, "round-trip", format!("{} does not round-trip: {:?}", what, DecShort(&other)), &bytes[..64]));
            return;
        }
    }
    for cut in [12usize, len / 2, len - 1] {
        st.decodes.fetch_add(1, Ordering::Relaxed);
        st.prefixes.fetch_add(1, Ordering::Relaxed);
        match decode(&bytes[..cut]) {
            Dec::Err(std::io::ErrorKind::UnexpectedEof) => {}
            other => {
                rep.report(mk(rep, "prefix-not-eof", format!("prefix of length {} of a {} decodes to {:?}, not UnexpectedEof", cut, what, DecShort(&other)), &bytes[..64]));
                return;
            }
        }
    }
    bytes.extend_from_slice(&[0xAA; 16]);
    st.decodes.fetch_add(1, Ordering::Relaxed);
    match decode(&bytes) {
        Dec::Ok { consumed, .. } if consumed == len => {}
        other => rep.report(mk(rep, "reads-past-record", format!("{} followed by garbage: {:?}", what, DecShort(&other)), &bytes[..64])),
    }
    st.decodes.fetch_add(1, Ordering::Relaxed);
    match decode_dribbled(&bytes, 65536) {
        Ok((rec, consumed)) if rec == r && consumed == len => {}
        other => rep.report(mk(rep, "decode-depends-on-read-granularity", format!("{} through a reader returning at most 65536 bytes per read: {:?}", what, other.map(|(x, c)| (x.short(), c))), &bytes[..64])),
    }
}

fn check_record(rep: &Reporter, r: &MRec, thorough: bool, st: &CodecStats) {
    st.records.fetch_add(1, Ordering::Relaxed);
    let bytes = enc::encode(r);
    // 1. round trip against the independent encoder
    st.decodes.fetch_add(1, Ordering::Relaxed);
    match decode(&bytes) {
        Dec::Ok { rec, consumed, reencoded } => {
            if rec != *r || consumed != bytes.len() || reencoded != bytes {
                rep.report(mk(
                    rep,
                    "round-trip",
                    format!("record {} does not round-trip: decoded {} consumed {} of {}", r.short(), rec.short(), consumed, bytes.len()),
                    &bytes,
                ));
                return;
            }
        }
        other => {
            rep.report(mk(rep, "round-trip", format!("record {} failed to decode: {:?}", r.short(), other), &bytes));
            return;
        }
    }
    // encoder's reported size
    {
        let real = enc::to_real(r);
        let mut out = vec![];
        let n = real.encode(&mut out).unwrap_or(usize::MAX);
        if n != out.len() || out != bytes {
            rep.report(mk(
                rep,
                "encode-size",
                format!("encode({}) reported {} bytes, wrote {}, expected {}", r.short(), n, out.len(), bytes.len()),
                &bytes,
            ));
        }
    }
    // 2. trailing garbage is not consumed
    {
        let mut b = bytes.clone();
        b.extend_from_slice(&[0xAA; 16]);
        st.decodes.fetch_add(1, Ordering::Relaxed);
        match decode(&b) {
            Dec::Ok { consumed, .. } if consumed == bytes.len() => {}
            other => rep.report(mk(
                rep,
                "reads-past-record",
                format!("decode of {} followed by garbage: {:?} (record is {} bytes)", r.short(), DecShort(&other), bytes.len()),
                &b,
            )),
        }
    }
    // 2b. the result does not depend on how the reader chops the bytes up
    //     (short reads are legal wherever a buffer boundary falls)
    {
        let mut b = bytes.clone();
        b.extend_from_slice(&[0xAA; 16]);
        for max in [1usize, 2, 3, 5, 7, 8, 9, 16, 1024] {
            st.decodes.fetch_add(1, Ordering::Relaxed);
            match decode_dribbled(&b, max) {
                Ok((rec, consumed)) if rec == *r && consumed == bytes.len() => {}
                other => {
                    rep.report(mk(
                        rep,
                        "decode-depends-on-read-granularity",
                        format!(
                            "decode of {} ({} bytes + garbage) through a reader returning at most {} bytes per read: {:?}",
                            r.short(),
                            bytes.len(),
                            max,
                            other.map(|(x, c)| (x.short(), c))
                        ),
                        &b,
                    ));
                    break;
                }
            }
        }
    }
    // 3. every proper prefix is an incomplete record (lemma used by the crash model)
    for cut in positions(bytes.len()) {
        st.decodes.fetch_add(1, Ordering::Relaxed);
        st.prefixes.fetch_add(1, Ordering::Relaxed);
        match decode(&bytes[..cut]) {
            Dec::Err(std::io::ErrorKind::UnexpectedEof) => {}
            other => {
                rep.report(mk(
                    rep,
                    "prefix-not-eof",
                    format!("prefix of length {} of {} decodes to {:?}, not UnexpectedEof", cut, r.short(), DecShort(&other)),
                    &bytes[..cut],
                ));
                break;
            }
        }
    }
    // 4. single-byte substitutions
    let mut b = bytes.clone();
    for pos in positions(bytes.len()) {
        let orig = bytes[pos];
        let vals: Vec<u8> = if thorough {
            (0..=255u8).filter(|x| *x != orig).collect()
        } else {
            let mut v: Vec<u8> = (0..8).map(|k| orig ^ (1 << k)).collect();
            for x in [0x00, 0xFF, orig.wrapping_add(1)] {
                if x != orig && !v.contains(&x) {
                    v.push(x);
                }
            }
            v
        };
        for x in vals {
            b[pos] = x;
            st.decodes.fetch_add(1, Ordering::Relaxed);
            st.mutations.fetch_add(1, Ordering::Relaxed);
            if judge(rep, &b, "mutated record") {
                st.mutations_accepted.fetch_add(1, Ordering::Relaxed);
            }
        }
        b[pos] = orig;
    }
}

struct DecShort<'a>(&'a Dec);
impl std::fmt::Debug for DecShort<'_> {
    fn fmt(&self, f: &mut std::fmt::Formatter<'_>) -> std::fmt::Result {
        match self.0 {
            Dec::Ok { rec, consumed, .. } => write!(f, "Ok({}, consumed {})", rec.short(), consumed),
            Dec::Err(k) => write!(f, "Err({:?})", k),
            Dec::Panic(m) => write!(f, "Panic({})", m),
        }
    }
}

fn arbitrary(rep: &Reporter, st: &CodecStats, thorough: bool) {
    // all byte strings of length <= 2
    let mut n = 0u64;
    let mut acc = 0u64;
    judge(rep, &[], "arbitrary bytes");
    n += 1;
    for a in 0..=255u8 {
        judge(rep, &[a], "arbitrary bytes");
        n += 1;
        for b in 0..=255u8 {
            if judge(rep, &[a, b], "arbitrary bytes") {
                acc += 1;
            }
            n += 1;
        }
    }
    st.arbitrary.fetch_add(n, Ordering::Relaxed);
    st.arbitrary_accepted.fetch_add(acc, Ordering::Relaxed);
    token_bodies(rep, st, thorough);
    // type tags x structured bodies, with a wrong and with the correct checksum
    // valid tags, unknown tags, and tags whose LOW byte is a valid kind while a
    // higher byte is set (a decoder that narrows the tag would accept those)
    let tags: [u32; 15] = [0, 1, 2, 3, 4, 5, 6, 255, u32::MAX, 0x100, 0x103, 0x0001_0005, 0x0100_0000, 0x0100_0003, 0xFFFF_FF02];
    let alpha: [u8; 4] = [0x00, 0x01, 0x02, 0xFF];
    let max_len = if thorough { 9 } else { 8 };
    let work: Vec<(u32, usize)> = tags.iter().flat_map(|t| (0..=max_len).map(move |l| (*t, l))).collect();
    let idx = AtomicUsize::new(0);
    let threads = std::thread::available_parallelism().map(|n| n.get()).unwrap_or(8);
    std::thread::scope(|sc| {
        for _ in 0..threads {
            sc.spawn(|| loop {
                let i = idx.fetch_add(1, Ordering::Relaxed);
                if i >= work.len() {
                    break;
                }
                let (tag, len) = work[i];
                let total = 4usize.pow(len as u32);
                let mut n = 0u64;
                let mut acc = 0u64;
                for code in 0..total {
                    let mut body = tag.to_be_bytes().to_vec();
                    let mut c = code;
                    for _ in 0..len {
                        body.push(alpha[c % 4]);
                        c /= 4;
                    }
                    let good = enc::seal(body.clone());
                    if judge(rep, &good, "structured bytes with a correct checksum") {
                        acc += 1;
                    }
                    let mut bad = good.clone();
                    let l = bad.len();
                    bad[l - 1] ^= 0x01;
                    if judge(rep, &bad, "structured bytes with a wrong checksum") {
                        rep.report(mk(rep, "wrong-checksum-accepted", format!("accepted {} with a wrong checksum", hex(&bad)), &bad));
                    }
                    n += 2;
                }
                st.arbitrary.fetch_add(n, Ordering::Relaxed);
                st.arbitrary_accepted.fetch_add(acc, Ordering::Relaxed);
            });
        }
    });
}

/// Type tags x bodies assembled from field-level tokens (integers, option
/// tags, length prefixes incl. 0xFFFFFFFF, text), each sealed with a correct
/// checksum: reaches the accept path of every kind and the near-accepts
/// (bad option tag, bad version, absurd length prefix, invalid UTF-8).
fn token_bodies(rep: &Reporter, st: &CodecStats, thorough: bool) {
    let tokens: Vec<Vec<u8>> = vec![
        0u64.to_be_bytes().to_vec(),
        1u64.to_be_bytes().to_vec(),
        u64::MAX.to_be_bytes().to_vec(),
        vec![0],
        vec![1],
        vec![2],
        0u32.to_be_bytes().to_vec(),
        1u32.to_be_bytes().to_vec(),
        2u32.to_be_bytes().to_vec(),
        u32::MAX.to_be_bytes().to_vec(),
        b"a".to_vec(),
        vec![0xC3], // first byte of a 2-byte UTF-8 sequence
    ];
    let tags: [u32; 12] = [0, 1, 2, 3, 4, 5, 6, u32::MAX, 0x100, 0x0001_0002, 0x0100_0004, 0xFFFF_FF00];
    let max_tokens = if thorough { 6 } else { 5 };
    let work: Vec<(u32, usize, usize)> =
        tags.iter().flat_map(|t| (0..=max_tokens).flat_map(move |l| (0..12usize).map(move |first| (*t, l, first)))).collect();
    let idx = AtomicUsize::new(0);
    let threads = std::thread::available_parallelism().map(|n| n.get()).unwrap_or(8);
    let tokens = &tokens;
    std::thread::scope(|sc| {
        for _ in 0..threads {
            sc.spawn(|| loop {
                let i = idx.fetch_add(1, Ordering::Relaxed);
                if i >= work.len() {
                    break;
                }
                let (tag, len, first) = work[i];
                if len == 0 && first != 0 {
                    continue;
                }
                let rest = len.saturating_sub(1);
                let total = 12usize.pow(rest as u32);
                let mut n = 0u64;
                let mut acc = 0u64;
                for code in 0..total {
                    let mut body = tag.to_be_bytes().to_vec();
                    if len > 0 {
                        body.extend_from_slice(&tokens[first]);
                    }
                    let mut c = code;
                    for _ in 0..rest {
                        body.extend_from_slice(&tokens[c % 12]);
                        c /= 12;
                    }
                    let good = enc::seal(body);
                    if judge(rep, &good, "token-structured bytes with a correct checksum") {
                        acc += 1;
                    }
                    n += 1;
                }
                st.arbitrary.fetch_add(n, Ordering::Relaxed);
                st.arbitrary_accepted.fetch_add(acc, Ordering::Relaxed);
            });
        }
    });
}

pub fn run(rep: &Reporter, thorough: bool) -> Value {
    let st = CodecStats {
        records: AtomicU64::new(0),
        decodes: AtomicU64::new(0),
        prefixes: AtomicU64::new(0),
        mutations: AtomicU64::new(0),
        mutations_accepted: AtomicU64::new(0),
        arbitrary: AtomicU64::new(0),
        arbitrary_accepted: AtomicU64::new(0),
    };
    // one record above 64 MiB (and, thorough, one above 256 MiB would not fit the
    // time budget): size limits hidden in the decoder show only up there
    check_huge_record(rep, (64 << 20) + 33, &st);
    let recs = structured_records(false);
    let kinds: Mutex<[u64; 6]> = Mutex::new([0; 6]);
    let idx = AtomicUsize::new(0);
    let threads = std::thread::available_parallelism().map(|n| n.get()).unwrap_or(8);
    std::thread::scope(|sc| {
        for _ in 0..threads {
            sc.spawn(|| loop {
                let i = idx.fetch_add(1, Ordering::Relaxed);
                if i >= recs.len() {
                    break;
                }
                kinds.lock().unwrap()[recs[i].kind() as usize] += 1;
                check_record(rep, &recs[i], thorough, &st);
            });
        }
    });
    arbitrary(rep, &st, thorough);
    let k = kinds.into_inner().unwrap();
    let samples: Vec<Value> = [0usize, 300, 700, recs.len() - 1]
        .iter()
        .filter_map(|i| recs.get(*i))
        .map(|r| json!({"record": r.short(), "encoded_hex": hex(&enc::encode(r))}))
        .collect();
    let decodes = st.decodes.load(Ordering::Relaxed) + st.arbitrary.load(Ordering::Relaxed);
    json!({
        "states": decodes,
        "transitions": decodes,
        "traces_validated_against_impl": decodes,
        "exhaustive": true,
        "samples": samples,
        "structured_records": st.records.load(Ordering::Relaxed),
        "records_by_kind_vote_append_commit_truncate_purge_state": k,
        "proper_prefixes_decoded": st.prefixes.load(Ordering::Relaxed),
        "single_byte_mutations_decoded": st.mutations.load(Ordering::Relaxed),
        "single_byte_mutations_accepted": st.mutations_accepted.load(Ordering::Relaxed),
        "mutation_values_per_position": if thorough { "all 255" } else { "8 bit flips + 0x00, 0xFF, +1" },
        "arbitrary_inputs_decoded": st.arbitrary.load(Ordering::Relaxed),
        "arbitrary_inputs_accepted": st.arbitrary_accepted.load(Ordering::Relaxed),
        "explanation": "bounded-exhaustive enumeration of the codec's input space: every record of a structured space (6 kinds x all Some/None combinations x boundary integers x payload lengths up to 64 KiB) is encoded by an independent encoder, decoded by the crate, re-encoded and compared; every proper prefix (all positions for records <= 512 bytes, first/last 64 and every 97th otherwise) must be UnexpectedEof; every single-byte substitution and every arbitrary input (all strings <= 2 bytes; 15 type tags (valid, unknown, and valid-low-byte-with-high-bytes-set) x all bodies over {00,01,02,FF} up to the length bound, with wrong and correct checksum) must not panic and, if accepted, must re-encode to exactly the consumed bytes. 'states'/'transitions' = decoder executions (each on a distinct input).",
    })
}

/// Re-judges one recorded input.
pub fn replay(rep: &Reporter, r: &Value) -> bool {
    let hexs = r["bytes_hex"].as_str().unwrap_or("");
    let bytes: Vec<u8> = (0..hexs.len() / 2).filter_map(|i| u8::from_str_radix(&hexs[2 * i..2 * i + 2], 16).ok()).collect();
    judge(rep, &bytes, "recorded input");
    // prefixes of a valid record must be incomplete
    if let Dec::Ok { consumed, .. } = decode(&bytes) {
        for cut in 0..consumed {
            if !matches!(decode(&bytes[..cut]), Dec::Err(std::io::ErrorKind::UnexpectedEof)) {
                rep.report(mk(rep, "prefix-not-eof", format!("prefix of length {} is not UnexpectedEof", cut), &bytes[..cut]));
                break;
            }
        }
    }
    true
}
