//! C13 fine level: contender threads racing `open; drop` (store or dump) on
//! one directory, every libc file-system call a scheduling point, all
//! interleavings explored by the schedx scheduler.

use std::sync::Arc;
use std::sync::Mutex;
use std::time::Instant;

use raft_log::Dump;
use serde_json::json;
use serde_json::Value;

use crate::imagex;
use crate::interpose::FsKind;
use crate::report::Reporter;
use crate::report::Violation;
use crate::sched;
use crate::sched::Dfs;
use crate::sched::Event;
use crate::sched::FaultPolicy;
use crate::sched::OpGate;
use crate::sched::ThreadKind;
use crate::sut::open_store;
use crate::sut::Cfg;
use crate::vt::VT;

#[derive(Clone, Copy, Debug, PartialEq, Eq)]
pub enum Kind {
    Store,
    Dump,
    /// open a store, append twice (a chunk rotation: the worker has a tail
    /// write and a file switch queued), flush without waiting, drop
    StoreWrite,
}

fn contender(kind: Kind, dir: String, out: Arc<Mutex<Vec<(usize, bool)>>>, me: usize) {
    let cfg = Cfg::records(3);
    sched::op_gate("attempt", OpGate::Always, 0);
    match kind {
        Kind::StoreWrite => match open_store(&dir, &cfg) {
            Ok(mut rl) => {
                use raft_log::api::raft_log_writer::RaftLogWriter;
                out.lock().unwrap().push((me, true));
                sched::note(format!("acquired {}", me));
                let st = crate::sut::mstate(&rl);
                let t = st.last.map(|l| l.0).unwrap_or(1);
                let mut next = crate::model::next_index(st.last.as_ref());
                for _ in 0..2 {
                    sched::op_gate("append", OpGate::Always, 0);
                    let _ = rl.append(vec![((t, next), format!("w{}-{}", me, next))]);
                    next += 1;
                }
                sched::op_gate("flush", OpGate::Always, 0);
                let _ = rl.flush(None);
                sched::op_gate("release", OpGate::Always, 0);
                sched::note(format!("releasing {}", me));
                let inst = sched::current_inst();
                drop(rl);
                sched::mark_sender_dropped(inst);
            }
            Err(_) => out.lock().unwrap().push((me, false)),
        },
        Kind::Store => match open_store(&dir, &cfg) {
            Ok(rl) => {
                out.lock().unwrap().push((me, true));
                sched::note(format!("acquired {}", me));
                sched::op_gate("release", OpGate::Always, 0);
                sched::note(format!("releasing {}", me));
                let inst = sched::current_inst();
                drop(rl);
                sched::mark_sender_dropped(inst);
            }
            Err(_) => out.lock().unwrap().push((me, false)),
        },
        Kind::Dump => match Dump::<VT>::new(cfg.to_config(&dir)) {
            Ok(d) => {
                out.lock().unwrap().push((me, true));
                sched::note(format!("acquired {}", me));
                sched::op_gate("release", OpGate::Always, 0);
                sched::note(format!("releasing {}", me));
                drop(d);
            }
            Err(_) => out.lock().unwrap().push((me, false)),
        },
    }
}

pub fn run(rep: &Reporter, thorough: bool) -> (Value, Option<String>) {
    let seed = crate::lockx::seed_files();
    let mixes: Vec<Vec<Kind>> = if thorough {
        vec![
            vec![Kind::Store, Kind::Store],
            vec![Kind::Store, Kind::Dump],
            vec![Kind::Dump, Kind::Store],
            vec![Kind::Store, Kind::Store, Kind::Dump],
            vec![Kind::Store, Kind::Store, Kind::Store],
            vec![Kind::StoreWrite, Kind::Dump],
            vec![Kind::StoreWrite, Kind::Store],
            vec![Kind::StoreWrite, Kind::StoreWrite],
            vec![Kind::Dump, Kind::Dump, Kind::Dump],
            vec![Kind::Dump, Kind::Store, Kind::Dump],
        ]
    } else {
        vec![
            vec![Kind::Store, Kind::Store],
            vec![Kind::Store, Kind::Dump],
            vec![Kind::StoreWrite, Kind::Dump],
            // three parties (few steps each: a dump only takes and releases the lock)
            vec![Kind::Dump, Kind::Dump, Kind::Dump],
        ]
    };
    let mut executions = 0u64;
    let mut steps = 0u64;
    let mut complete = 0u64;
    let mut blocked = 0u64;
    let mut both_refused = 0u64;
    let mut machinery = None;
    let mut capped = false;
    let mut outcomes: std::collections::BTreeSet<String> = Default::default();
    let deadline = Instant::now() + std::time::Duration::from_secs(crate::checks::cap_secs(if thorough { 1500 } else { 40 }));
    'mix: for mix in &mixes {
        let mut dfs = Dfs::new(0, FaultPolicy::None);
        loop {
            dfs.begin_execution();
            let dir = imagex::materialize(&seed);
            let out = Arc::new(Mutex::new(vec![]));
            let bodies: Vec<(ThreadKind, sched::ThreadBody)> = mix
                .iter()
                .enumerate()
                .map(|(i, k)| {
                    let d = dir.path.clone();
                    let o = out.clone();
                    let k = *k;
                    let b: sched::ThreadBody = Box::new(move || contender(k, d, o, i));
                    (ThreadKind::Contender, b)
                })
                .collect();
            let res = sched::run_execution(bodies, &mut dfs);
            if let Some(h) = &res.hung {
                machinery = Some(format!("hang: {}", h));
                break 'mix;
            }
            if let Some(d) = &dfs.divergence {
                machinery = Some(format!("nondeterminism while replaying a prefix: {}", d));
                break 'mix;
            }
            executions += 1;
            steps += res.steps as u64;
            let sched_json = json!(dfs.schedule().iter().map(|(t, l)| format!("{}:{}", t, l)).collect::<Vec<_>>());
            let mk = |key: &str, what: String| Violation {
                prop: rep.prop.clone(),
                key: key.to_string(),
                what: format!("{} | contenders {:?}", what, mix),
                replay: json!({"engine":"lockfine","mix": format!("{:?}", mix), "schedule": sched_json}),
            };
            // trace oracle: ownership intervals [acquired .. releasing] are disjoint;
            // every mutating call on a chunk file lies inside its issuer's interval
            // (the issuer's worker thread counts as the issuer)
            let mut owner: Option<usize> = None;
            // worker tid -> contender: a worker belongs to the contender that spawned it
            let mut thread_owner: std::collections::BTreeMap<usize, usize> = Default::default();
            for (i, _) in mix.iter().enumerate() {
                thread_owner.insert(i, i);
            }
            for e in &res.trace {
                match e {
                    Event::Hook { tid, point: "worker.spawn", .. } => {
                        let wt = thread_owner.len();
                        let o = thread_owner.get(tid).copied().unwrap_or(*tid);
                        thread_owner.insert(wt, o);
                    }
                    Event::Fs { tid, call, ret, .. } if call.name == "LOCK" => {
                        let issuer = thread_owner.get(tid).copied().unwrap_or(*tid);
                        match call.kind {
                            FsKind::Flock if *ret == 0 && (call.arg as i32 & libc::LOCK_EX) != 0 => {
                                if let Some(o) = owner {
                                    rep.report(mk("second-owner-admitted", format!("contender {} locked the directory while contender {} owns it", issuer, o)));
                                }
                                owner = Some(issuer);
                            }
                            FsKind::Flock if *ret == 0 && (call.arg as i32 & libc::LOCK_UN) != 0 => {
                                if owner == Some(issuer) {
                                    owner = None;
                                }
                            }
                            FsKind::Close => {
                                if owner == Some(issuer) {
                                    owner = None;
                                }
                            }
                            _ => {}
                        }
                    }
                    Event::Fs { tid, call, ret, .. } if *ret >= 0 && call.name.ends_with(".wal") => {
                        if matches!(call.kind, FsKind::Write | FsKind::Ftruncate | FsKind::Unlink | FsKind::Create) {
                            let issuer = thread_owner.get(tid).copied().unwrap_or(*tid);
                            if owner != Some(issuer) {
                                rep.report(mk(
                                    "chunk-file-modified-without-ownership",
                                    format!("contender {} issued {:?}({}) while it does not hold the directory lock (holder: {:?})", issuer, call.kind, call.name, owner),
                                ));
                            }
                        }
                    }
                    Event::Note(n) if n.starts_with("acquired ") => {
                        let who: usize = n[9..].parse().unwrap_or(0);
                        if owner != Some(who) {
                            rep.report(mk("acquired-without-lock", format!("contender {}'s open succeeded but the trace shows lock holder {:?}", who, owner)));
                        }
                    }
                    _ => {}
                }
            }
            let o = out.lock().unwrap().clone();
            let wins = o.iter().filter(|x| x.1).count();
            outcomes.insert(format!("{:?}", {
                let mut v = o.clone();
                v.sort();
                v
            }));
            if wins == 0 {
                both_refused += 1;
            }
            if o.len() != mix.len() {
                rep.report(mk("contender-did-not-return", format!("outcomes {:?}", o)));
            }
            if let Some(d) = &res.deadlock {
                rep.report(mk("deadlock", format!("deadlock: {}", d)));
                break;
            }
            if !dfs.next_branch() {
                break;
            }
            if Instant::now() > deadline {
                capped = true;
                break 'mix;
            }
        }
        complete += dfs.stats.complete;
        blocked += dfs.stats.sleep_blocked;
    }
    (
        json!({
            "fine_level_executions": executions,
            "fine_level_complete_executions": complete,
            "fine_level_sleep_blocked": blocked,
            "fine_level_steps": steps,
            "fine_level_mixes": mixes.iter().map(|m| format!("{:?}", m)).collect::<Vec<_>>(),
            "fine_level_distinct_outcomes": outcomes.into_iter().collect::<Vec<_>>(),
            "fine_level_executions_where_every_attempt_was_refused": both_refused,
            "fine_level_wall_cap_hit": capped,
        }),
        machinery,
    )
}
