//! `lockx` — contention on the directory lock (C13), process level.
//!
//! Three contender processes are driven over pipes through every command
//! sequence up to a depth bound; a reference "holder" variable is the oracle.

use std::io::BufRead;
use std::io::BufReader;
use std::io::Write;
use std::process::Child;
use std::process::ChildStdin;
use std::process::ChildStdout;
use std::process::Command;
use std::process::Stdio;
use std::sync::atomic::AtomicU64;
use std::sync::atomic::Ordering;
use std::sync::Mutex;

use raft_log::Dump;
use raft_log::RaftLog;
use serde_json::json;
use serde_json::Value;

use crate::alphabet::payload;
use crate::imagex;
use crate::model::Op;
use crate::report::Reporter;
use crate::report::Violation;
use crate::sut::Cfg;
use crate::sut::ScratchDir;
use crate::vt::VT;

enum Handle {
    Store(#[allow(dead_code)] RaftLog<VT>),
    Dump(#[allow(dead_code)] Dump<VT>),
}

/// `vx lock-contender <dir>`: O = open a store, U = open a dump, D = drop the
/// most recent handle, R = drop everything. Replies one line per command.
pub fn contender_main(dir: &str) -> i32 {
    // the endurance run lowers the descriptor limit, so that a handle leaked per
    // attempt shows after a few hundred attempts
    if let Some(n) = std::env::var("VX_NOFILE").ok().and_then(|s| s.parse::<u64>().ok()) {
        unsafe {
            let lim = libc::rlimit { rlim_cur: n, rlim_max: n };
            libc::setrlimit(libc::RLIMIT_NOFILE, &lim);
        }
    }
    let cfg = Cfg::records(3).to_config(dir);
    let mut held: Vec<Handle> = vec![];
    let stdin = std::io::stdin();
    let stdout = std::io::stdout();
    for line in stdin.lock().lines() {
        let Ok(line) = line else { break };
        let resp = match line.trim() {
            "O" => match std::panic::catch_unwind(std::panic::AssertUnwindSafe(|| RaftLog::<VT>::open(cfg.clone()))) {
                Ok(Ok(rl)) => {
                    held.push(Handle::Store(rl));
                    "ok".to_string()
                }
                Ok(Err(e)) => format!("err {:?}", e.kind()),
                Err(_) => "panic".to_string(),
            },
            "U" => match Dump::<VT>::new(cfg.clone()) {
                Ok(d) => {
                    held.push(Handle::Dump(d));
                    "ok".to_string()
                }
                Err(e) => format!("err {:?}", e.kind()),
            },
            "D" => {
                held.pop();
                "ok".to_string()
            }
            "R" => {
                held.clear();
                "ok".to_string()
            }
            _ => "bad".to_string(),
        };
        let mut o = stdout.lock();
        let _ = writeln!(o, "{}", resp);
        let _ = o.flush();
    }
    0
}

struct Contender {
    child: Child,
    stdin: ChildStdin,
    stdout: BufReader<ChildStdout>,
}

impl Contender {
    fn spawn(dir: &str) -> Self {
        Self::spawn_with(dir, None)
    }
    fn spawn_with(dir: &str, nofile: Option<u64>) -> Self {
        let exe = std::env::current_exe().unwrap();
        let mut cmd = Command::new(exe);
        if let Some(n) = nofile {
            cmd.env("VX_NOFILE", n.to_string());
        }
        let mut child = cmd
            .args(["lock-contender", dir])
            .stdin(Stdio::piped())
            .stdout(Stdio::piped())
            .spawn()
            .expect("spawn contender");
        let stdin = child.stdin.take().unwrap();
        let stdout = BufReader::new(child.stdout.take().unwrap());
        Contender { child, stdin, stdout }
    }
    fn cmd(&mut self, c: char) -> String {
        let _ = writeln!(self.stdin, "{}", c);
        let _ = self.stdin.flush();
        let mut s = String::new();
        let _ = self.stdout.read_line(&mut s);
        s.trim().to_string()
    }
}

impl Drop for Contender {
    fn drop(&mut self) {
        let _ = self.child.kill();
        let _ = self.child.wait();
    }
}

struct Group {
    dir: ScratchDir,
    procs: Vec<Contender>,
}

/// a directory with two chunk files whose newest has a torn tail, so that an
/// opener that got past the lock would modify a chunk file
pub fn seed_files() -> Vec<(String, Vec<u8>)> {
    let hist = vec![
        Op::Append(vec![((1, 0), payload((1, 0), 0))]),
        Op::Vote((1, 1)),
        Op::Append(vec![((1, 1), payload((1, 1), 0))]),
        Op::Commit((1, 1)),
    ];
    let mut sut = crate::sut::Sut::open(Cfg::records(3)).expect("seed store");
    for op in &hist {
        let _ = sut.call(op);
    }
    sut.flush_wait().expect("seed flush");
    sut.close();
    let mut files = imagex::read_files(&sut.dir.path);
    let last = files.last_mut().unwrap();
    let n = last.1.len();
    last.1.truncate(n - 3);
    files
}

/// a directory whose middle chunk file is missing: `RaftLog::open` takes the
/// lock, then fails ("Gap between chunks"); `Dump::new` only needs the lock
pub fn seed_files_gap() -> Vec<(String, Vec<u8>)> {
    let mut sut = crate::sut::Sut::open(Cfg::records(2)).expect("seed store");
    for i in 0..3u64 {
        let _ = sut.call(&Op::Append(vec![((1, i), payload((1, i), 0))]));
    }
    sut.flush_wait().expect("seed flush");
    sut.close();
    let mut files = imagex::read_files(&sut.dir.path);
    assert!(files.len() >= 3, "gap seed needs three chunk files");
    files.remove(1);
    files
}

/// complete chunks followed by a zero-length newest chunk file (the image a
/// crash right after a rotation's file creation leaves): recovery removes that
/// file, so an opener that acts before (or without) owning the lock shows
pub fn seed_files_empty_newest() -> Vec<(String, Vec<u8>)> {
    let mut sut = crate::sut::Sut::open(Cfg::records(3)).expect("seed store");
    for i in 0..2u64 {
        let _ = sut.call(&Op::Append(vec![((1, i), payload((1, i), 0))]));
    }
    sut.flush_wait().expect("seed flush");
    sut.close();
    let mut files = imagex::read_files(&sut.dir.path);
    // after the second append the first chunk is full: the newest file holds only
    // its head snapshot; cut it to zero length
    assert!(files.len() >= 2, "empty-newest seed needs a rotated chunk");
    files.last_mut().unwrap().1.clear();
    files
}

fn restore(dir: &str, files: &[(String, Vec<u8>)]) {
    for (n, _) in crate::sut::list_files(dir) {
        let _ = std::fs::remove_file(format!("{}/{}", dir, n));
    }
    for (n, b) in files {
        std::fs::write(format!("{}/{}", dir, n), b).unwrap();
    }
}

type Step = (usize, char);

fn enumerate(depth: usize, n: usize, store_opens: bool) -> Vec<Vec<Step>> {
    // model-pruned: D only for a contender that holds something
    fn rec(depth: usize, n: usize, store_opens: bool, held: &mut Vec<usize>, cur: &mut Vec<Step>, out: &mut Vec<Vec<Step>>) {
        if cur.len() == depth {
            out.push(cur.clone());
            return;
        }
        let total: usize = held.iter().sum();
        for c in 0..n {
            for cmd in ['O', 'U', 'D'] {
                if cmd == 'D' && held[c] == 0 {
                    continue;
                }
                cur.push((c, cmd));
                let before = held[c];
                match cmd {
                    'D' => held[c] -= 1,
                    _ => {
                        if total == 0 && (store_opens || cmd == 'U') {
                            held[c] += 1
                        }
                    }
                }
                rec(depth, n, store_opens, held, cur, out);
                held[c] = before;
                cur.pop();
            }
        }
    }
    let mut out = vec![];
    rec(depth, n, store_opens, &mut vec![0; n], &mut vec![], &mut out);
    out
}

fn seq_text(s: &[Step]) -> String {
    s.iter().map(|(c, k)| format!("p{}:{}", c, k)).collect::<Vec<_>>().join(" ")
}

pub fn run(rep: &Reporter, thorough: bool) -> Value {
    let a = run_flavour(rep, if thorough { 7 } else { 5 }, true, seed_files(), "two chunks, torn tail");
    // a zero-length newest chunk: something an opener removes during recovery
    let c = run_flavour(rep, if thorough { 5 } else { 4 }, true, seed_files_empty_newest(), "complete chunks + zero-length newest chunk");
    // a store open that FAILS after it took the lock (gap between chunks) must
    // release it: the same exploration on a directory no store can open
    let b = run_flavour(rep, if thorough { 6 } else { 4 }, false, seed_files_gap(), "middle chunk missing (no store can open it)");
    let e = endurance(rep, thorough);
    let mut out = a.clone();
    if let Some(o) = out.as_object_mut() {
        o.insert("endurance".to_string(), e);
    }
    if let (Some(o), Some(bo)) = (out.as_object_mut(), b.as_object()) {
        for k in ["states", "transitions", "traces_validated_against_impl"] {
            let n = o[k].as_u64().unwrap_or(0) + bo[k].as_u64().unwrap_or(0) + c[k].as_u64().unwrap_or(0);
            o.insert(k.to_string(), json!(n));
        }
        o.insert("unopenable_directory_flavour".to_string(), b.clone());
        o.insert("empty_newest_chunk_flavour".to_string(), c.clone());
    }
    out
}

/// Many repetitions of the same attempt: a handle, lock or thread leaked per
/// attempt only shows after hundreds of them (contenders run with a descriptor
/// limit of 256).
fn endurance(rep: &Reporter, thorough: bool) -> Value {
    let n = if thorough { 3000 } else { 400 };
    let dir = ScratchDir::new();
    restore(&dir.path, &seed_files());
    let mut p0 = Contender::spawn_with(&dir.path, Some(256));
    let mut p1 = Contender::spawn_with(&dir.path, Some(256));
    let mk = |key: &str, what: String| Violation {
        prop: rep.prop.clone(),
        key: key.to_string(),
        what: format!("{} | endurance run ({} repetitions, descriptor limit 256)", what, n),
        replay: json!({"engine":"lockx","sequence": "endurance", "repetitions": n}),
    };
    let mut steps = 0u64;
    // one owner, hundreds of refused attempts of both kinds, then hand-over
    let r = p0.cmd('O');
    steps += 1;
    if r != "ok" {
        rep.report(mk("free-directory-refused", format!("first open of a free directory: {}", r)));
        return json!({"steps": steps});
    }
    let before = imagex::read_files(&dir.path);
    for k in 0..n {
        for cmd in ['O', 'U'] {
            let r = p1.cmd(cmd);
            steps += 1;
            if r == "ok" || r == "panic" {
                rep.report(mk("second-owner-admitted", format!("refused attempt {} ({}) returned {}", k, cmd, r)));
                return json!({"steps": steps});
            }
        }
    }
    if imagex::read_files(&dir.path) != before {
        rep.report(mk("refused-attempt-modified-files", "chunk files changed during the refused attempts".to_string()));
    }
    p0.cmd('D');
    for cmd in ['O', 'U'] {
        let r = p1.cmd(cmd);
        steps += 2;
        if r != "ok" {
            rep.report(mk("free-directory-refused", format!("after {} refused attempts and the owner's drop, {} by the same contender: {}", 2 * n, cmd, r)));
            return json!({"steps": steps});
        }
        p1.cmd('D');
    }
    // hundreds of open/drop cycles in one process
    for k in 0..n {
        for cmd in ['O', 'U'] {
            let r = p0.cmd(cmd);
            steps += 2;
            if r != "ok" {
                rep.report(mk("free-directory-refused", format!("open/drop cycle {} ({}): {}", k, cmd, r)));
                return json!({"steps": steps});
            }
            p0.cmd('D');
        }
    }
    json!({"steps": steps, "repetitions": n, "descriptor_limit": 256})
}

fn run_flavour(rep: &Reporter, depth: usize, store_opens: bool, seed: Vec<(String, Vec<u8>)>, flavour: &str) -> Value {
    let nproc = 3;
    let seqs = enumerate(depth, nproc, store_opens);
    let groups_n = 2 * std::thread::available_parallelism().map(|n| n.get()).unwrap_or(8);
    let steps = AtomicU64::new(0);
    let refused = AtomicU64::new(0);
    let admitted = AtomicU64::new(0);
    let outcomes: Mutex<std::collections::BTreeSet<String>> = Mutex::new(Default::default());
    let next = std::sync::atomic::AtomicUsize::new(0);
    std::thread::scope(|sc| {
        for _ in 0..groups_n {
            sc.spawn(|| {
                let dir = ScratchDir::new();
                // the contenders name the same directory differently (plain, with a
                // trailing slash, through `/.`, through a symbolic link)
                let link = format!("{}.link", dir.path);
                let _ = std::fs::remove_file(&link);
                let spellings: Vec<String> = vec![
                    dir.path.clone(),
                    format!("{}/", dir.path),
                    match std::os::unix::fs::symlink(&dir.path, &link) {
                        Ok(()) => link.clone(),
                        Err(_) => format!("{}/.", dir.path),
                    },
                ];
                let procs = (0..nproc).map(|i| Contender::spawn(&spellings[i % spellings.len()])).collect();
                let mut g = Group { dir, procs };
                loop {
                    let i = next.fetch_add(1, Ordering::Relaxed);
                    if i >= seqs.len() {
                        break;
                    }
                    let seq = &seqs[i];
                    for p in g.procs.iter_mut() {
                        p.cmd('R');
                    }
                    restore(&g.dir.path, &seed);
                    let mut held = vec![0usize; nproc];
                    let mut trace = String::new();
                    for (k, (c, cmd)) in seq.iter().enumerate() {
                        let total: usize = held.iter().sum();
                        let before = if *cmd != 'D' && total > 0 { Some(imagex::read_files(&g.dir.path)) } else { None };
                        let resp = g.procs[*c].cmd(*cmd);
                        steps.fetch_add(1, Ordering::Relaxed);
                        trace.push_str(&format!("{}{}", cmd, if resp == "ok" { '+' } else { '-' }));
                        let mk = |key: &str, what: String| Violation {
                            prop: rep.prop.clone(),
                            key: key.to_string(),
                            what: format!("{} | step {} of sequence [{}] | directory: {}", what, k + 1, seq_text(seq), flavour),
                            replay: json!({"engine":"lockx","sequence": seq_text(seq), "step": k + 1, "directory": flavour}),
                        };
                        match cmd {
                            'D' => held[*c] -= 1,
                            'O' if total == 0 && !store_opens => {
                                // nobody holds the lock; the open must fail on the gap
                                // (not by a panic) and must not keep the lock
                                if resp == "ok" || resp == "panic" {
                                    rep.report(mk("unopenable-directory-opened", format!("RaftLog::open on a directory with a missing middle chunk returned {}", resp)));
                                    break;
                                }
                            }
                            _ => {
                                if total == 0 {
                                    if resp != "ok" {
                                        rep.report(mk(
                                            "free-directory-refused",
                                            format!("nobody holds the directory but contender {} was refused: {}", c, resp),
                                        ));
                                        break;
                                    }
                                    held[*c] += 1;
                                    admitted.fetch_add(1, Ordering::Relaxed);
                                } else {
                                    refused.fetch_add(1, Ordering::Relaxed);
                                    if resp == "ok" {
                                        rep.report(mk(
                                            "second-owner-admitted",
                                            format!("directory already owned, but contender {}'s {} succeeded", c, if *cmd == 'O' { "RaftLog::open" } else { "Dump::new" }),
                                        ));
                                        break;
                                    }
                                    if resp == "panic" {
                                        rep.report(mk("refused-attempt-panicked", format!("contender {} panicked", c)));
                                        break;
                                    }
                                    let after = imagex::read_files(&g.dir.path);
                                    if before.as_ref() != Some(&after) {
                                        rep.report(mk(
                                            "refused-attempt-modified-files",
                                            format!("contender {}'s refused attempt changed chunk files", c),
                                        ));
                                        break;
                                    }
                                }
                            }
                        }
                    }
                    outcomes.lock().unwrap().insert(trace);
                }
                drop(g);
                let _ = std::fs::remove_file(&link);
            });
        }
    });
    let o = outcomes.into_inner().unwrap();
    json!({
        "states": seqs.len().max(1),
        "transitions": steps.load(Ordering::Relaxed).max(1),
        "traces_validated_against_impl": seqs.len(),
        "exhaustive": true,
        "samples": seqs.iter().step_by((seqs.len() / 4).max(1)).take(4).map(|s| json!(seq_text(s))).collect::<Vec<_>>(),
        "contender_processes": nproc,
        "depth": depth,
        "command_sequences": seqs.len(),
        "refused_attempts_checked": refused.load(Ordering::Relaxed),
        "admitted_attempts": admitted.load(Ordering::Relaxed),
        "distinct_outcome_traces": o.len(),
    })
}
