//! C14 — dropping the store quiesces it: two store instances on one
//! directory, the old instance's detached worker still running while the new
//! instance opens and works. All placements of the old worker's remaining
//! steps are explored by the schedx scheduler.

use std::sync::Arc;
use std::sync::Mutex;
use std::time::Instant;

use raft_log::api::raft_log_writer::RaftLogWriter;
use serde_json::json;

use crate::interpose::FsKind;
use crate::model::next_index;
use crate::model::Op;
use crate::model::RefLog;
use crate::report::Violation;
use crate::sched;
use crate::sched::Dfs;
use crate::sched::Event;
use crate::sched::FaultPolicy;
use crate::sched::OpGate;
use crate::sched::ThreadKind;
use crate::schedx::plan;
use crate::schedx::shist_short;
use crate::schedx::Machinery;
use crate::schedx::Plan;
use crate::schedx::SOp;
use crate::schedx::SchedStats;
use crate::seqx::cfg_to_json;
use crate::sut::mstate;
use crate::sut::open_store;
use crate::sut::read_range;
use crate::sut::Cfg;
use crate::sut::ScratchDir;
use crate::vt::AckEvent;
use crate::vt::AckLog;

#[derive(Clone)]
pub struct C14Spec {
    pub prop: String,
    /// phase 1: operations of the first instance, ending with F and the waits
    /// for every flush, followed by optional unflushed appends
    pub phase1: Vec<SOp>,
    pub cfg: Cfg,
    pub max_executions: u64,
    /// the first instance is dropped while its owner unwinds from a panic
    /// (caught by the harness): `drop` must quiesce the store all the same
    pub unwind_drop: bool,
    /// one EIO at any write / fdatasync / unlink of the FIRST instance's worker
    /// (a failed write or unlink makes that worker quit with requests still
    /// queued); judged: `drop` returns, the old worker has quit by then and
    /// changes nothing afterwards, re-opening does not panic
    pub worker_faults: bool,
    /// one schedule only (the caller whenever it is enabled): for first-instance
    /// histories too large to explore, e.g. a purge that removes dozens of chunks
    pub caller_first_only: bool,
}

fn vio(spec: &C14Spec, key: &str, what: String, extra: serde_json::Value) -> Violation {
    Violation {
        prop: spec.prop.clone(),
        key: key.to_string(),
        what: format!("{} | first instance: [{}]; {}; open; purge; F; W; R; drop | cfg: {}", what, shist_short(&spec.phase1), if spec.unwind_drop { "drop by unwinding from a panic" } else { "drop" }, spec.cfg.short()),
        replay: json!({
            "engine": "c14",
            "phase1": spec.phase1.iter().map(crate::schedx::sop_to_json).collect::<Vec<_>>(),
            "phase1_text": shist_short(&spec.phase1),
            "unwind_drop": spec.unwind_drop,
            "worker_faults": spec.worker_faults,
            "cfg": cfg_to_json(&spec.cfg),
            "extra": extra,
        }),
    }
}

#[derive(Default)]
struct Out {
    problems: Vec<(String, String)>,
    drop1_done: bool,
    notes: Vec<String>,
}

fn exec_write(rl: &mut raft_log::RaftLog<crate::vt::VT>, w: &Op) -> Result<(), String> {
    let r = std::panic::catch_unwind(std::panic::AssertUnwindSafe(|| match w {
        Op::Vote(v) => rl.save_vote(*v).map(|_| ()),
        Op::Append(es) => rl.append(es.clone()).map(|_| ()),
        Op::Truncate(x) => rl.truncate(*x).map(|_| ()),
        Op::Purge(id) => rl.purge(*id).map(|_| ()),
        Op::Commit(id) => rl.commit(*id).map(|_| ()),
        Op::UserData(u) => rl.save_user_data(u.clone()).map(|_| ()),
        _ => Ok(()),
    }));
    match r {
        Ok(Ok(())) => Ok(()),
        Ok(Err(e)) => Err(format!("Err: {}", e)),
        Err(p) => Err(format!("PANIC: {}", crate::sut::panic_msg(p))),
    }
}

fn body(spec: C14Spec, pl: Arc<Plan>, dir: String, out: Arc<Mutex<Out>>) {
    let problem = |k: &str, w: String| out.lock().unwrap().problems.push((k.to_string(), w));
    // ---- first instance ------------------------------------------------------
    sched::op_gate("open1", OpGate::Always, sched::R_ALL);
    sched::set_extra_bits(sched::R_ALL);
    let rl1 = open_store(&dir, &spec.cfg);
    sched::set_extra_bits(0);
    let mut rl1 = match rl1 {
        Ok(r) => r,
        Err(e) => {
            problem("open-fresh-failed", e);
            return;
        }
    };
    let inst1 = sched::current_inst();
    let acks1 = AckLog::new();
    let mut nflush = 0u64;
    let mut acked_records = 0usize;
    for (i, op) in spec.phase1.iter().enumerate() {
        let gatek = match op {
            SOp::WaitAck => OpGate::WaitAck(pl.wait_targets[&i]),
            _ => OpGate::Always,
        };
        sched::op_gate(&op.short(), gatek, if matches!(op, SOp::WaitAck) { sched::R_ACK } else { 0 });
        match op {
            SOp::W(w) => {
                if let Err(e) = exec_write(&mut rl1, w) {
                    if spec.worker_faults {
                        break;
                    }
                    problem("op-failed", format!("{} on the first instance: {}", w.short(), e));
                }
            }
            SOp::Flush => {
                let cb = acks1.cb(nflush);
                nflush += 1;
                if let Err(e) = rl1.flush(Some(cb)) {
                    if spec.worker_faults {
                        break;
                    }
                    problem("op-failed", format!("flush on the first instance: {}", e));
                }
            }
            SOp::WaitAck => {
                let id = pl.wait_targets[&i];
                match acks1.get(id) {
                    Some(AckEvent::Sent { ok: true, .. }) => {
                        acked_records = acked_records.max(pl.recs_before_op[pl.flush_ops[id as usize]]);
                    }
                    _ if spec.worker_faults => break,
                    other => problem("flush-not-acknowledged-ok", format!("flush {} of the first instance: {:?}", id, other)),
                }
            }
            _ => {}
        }
    }
    sched::op_gate("drop1", OpGate::Always, sched::R_CHAN | sched::R_LOCK);
    sched::set_extra_bits(sched::R_CHAN | sched::R_LOCK);
    if spec.unwind_drop {
        // resume_unwind: a real unwinding (thread::panicking() is true inside
        // the destructors) without going through the panic hook
        let _ = std::panic::catch_unwind(std::panic::AssertUnwindSafe(move || {
            let _owner = rl1;
            std::panic::resume_unwind(Box::new("vx: owner of the store unwinds"));
        }));
    } else {
        drop(rl1);
    }
    sched::mark_sender_dropped(inst1);
    sched::set_extra_bits(0);
    sched::note("drop1-returned".to_string());
    out.lock().unwrap().drop1_done = true;
    if spec.worker_faults {
        // what the directory looks like after a failed worker is C05's business
        // (an unfinished rotation leaves the known gap); here: no panic
        sched::op_gate("open2", OpGate::Always, 0);
        match open_store(&dir, &spec.cfg) {
            Err(e) if e.starts_with("PANIC") => problem("reopen-after-worker-failure-panicked", e),
            Err(_) => out.lock().unwrap().notes.push("reopen-refused-after-worker-failure".to_string()),
            Ok(rl2) => {
                let inst2 = sched::current_inst();
                sched::op_gate("drop2", OpGate::Always, sched::R_CHAN | sched::R_LOCK);
                sched::set_extra_bits(sched::R_CHAN | sched::R_LOCK);
                drop(rl2);
                sched::mark_sender_dropped(inst2);
                sched::set_extra_bits(0);
            }
        }
        return;
    }

    // ---- second instance -----------------------------------------------------
    sched::op_gate("open2", OpGate::Always, 0);
    let mut rl2 = match open_store(&dir, &spec.cfg) {
        Ok(r) => r,
        Err(e) => {
            problem("reopen-after-drop-refused", format!("opening the directory after drop failed: {}", e));
            return;
        }
    };
    sched::note("open2-returned".to_string());
    let st = mstate(&rl2);
    let ents = read_range(&rl2, 0, u64::MAX);
    let mut matched: Option<usize> = None;
    for (j, m) in pl.prefix_states.iter().enumerate() {
        if m.st == st && ents.as_ref().ok() == Some(&m.all()) {
            matched = Some(j);
        }
    }
    let mut model: RefLog = match matched {
        Some(j) if j >= acked_records => pl.prefix_states[j].clone(),
        Some(j) => {
            problem(
                "reopen-lost-acknowledged-write",
                format!("reopened store holds the prefix of {} writes, but {} were acknowledged", j, acked_records),
            );
            pl.prefix_states[j].clone()
        }
        None => {
            problem("reopen-state-not-a-prefix", format!("reopened store shows {:?} {:?}", st, ents));
            return;
        }
    };
    // purge + flush + ack on the new instance
    let purge = match model.entries.values().next() {
        Some((id, _)) => Op::Purge(*id),
        None => {
            let t = model.st.last.map(|l| l.0).unwrap_or(1);
            Op::Purge((t, next_index(model.st.last.as_ref()) + 1))
        }
    };
    sched::op_gate("purge2", OpGate::Always, 0);
    model.apply(&purge);
    if let Err(e) = exec_write(&mut rl2, &purge) {
        problem("new-instance-op-failed", format!("{}: {}", purge.short(), e));
    }
    let acks2 = AckLog::new();
    sched::op_gate("flush2", OpGate::Always, 0);
    if let Err(e) = rl2.flush(Some(acks2.cb(1000))) {
        problem("new-instance-op-failed", format!("flush: {}", e));
    }
    sched::op_gate("wait2", OpGate::WaitAck(1000), sched::R_ACK);
    match acks2.get(1000) {
        Some(AckEvent::Sent { ok: true, .. }) => {}
        other => problem("new-instance-flush-not-acknowledged-ok", format!("{:?}", other)),
    }
    let inst2 = sched::current_inst();
    sched::op_gate("idle2", OpGate::WaitIdle(inst2), sched::R_IDLE);
    sched::op_gate("read2", OpGate::Always, 0);
    sched::set_extra_bits(sched::R_CACHE);
    let got = read_range(&rl2, 0, u64::MAX);
    sched::set_extra_bits(0);
    if got.as_ref().ok() != Some(&model.all()) || mstate(&rl2) != model.st {
        problem("new-instance-read-differs", format!("read {:?} state {:?}; model {:?} {:?}", got, mstate(&rl2), model.all(), model.st));
    }
    // one more append + flush: the new worker must still be alive
    let t = model.st.last.map(|l| l.0).unwrap_or(1);
    let app = Op::Append(vec![((t, next_index(model.st.last.as_ref())), "after".to_string())]);
    sched::op_gate("append2", OpGate::Always, 0);
    if let Err(e) = exec_write(&mut rl2, &app) {
        problem("new-instance-op-failed", format!("{}: {}", app.short(), e));
    }
    sched::op_gate("flush2b", OpGate::Always, 0);
    if let Err(e) = rl2.flush(Some(acks2.cb(1001))) {
        problem("new-instance-op-failed", format!("second flush: {}", e));
    }
    sched::op_gate("wait2b", OpGate::WaitAck(1001), sched::R_ACK);
    match acks2.get(1001) {
        Some(AckEvent::Sent { ok: true, .. }) => {}
        other => problem("new-instance-flush-not-acknowledged-ok", format!("second flush: {:?}", other)),
    }
    sched::op_gate("drop2", OpGate::Always, sched::R_CHAN | sched::R_LOCK);
    sched::set_extra_bits(sched::R_CHAN | sched::R_LOCK);
    drop(rl2);
    sched::mark_sender_dropped(inst2);
    sched::set_extra_bits(0);
}

pub fn explore(spec: &C14Spec, vios: &mut Vec<Violation>, stats: &mut SchedStats, deadline: Instant) -> Result<(), Machinery> {
    if spec.caller_first_only {
        return explore_with(spec, vios, stats, deadline, Dfs::replaying(vec![], 0, FaultPolicy::None));
    }
    if spec.worker_faults {
        let mut dfs = Dfs::new(1, FaultPolicy::WorkerEioUnlink);
        dfs.fault_inst = Some(0);
        // a drop that never returns is a possible verdict here, not a machinery failure
        sched::set_park_timeout(Some(std::time::Duration::from_secs(20)));
        let r = explore_with(spec, vios, stats, deadline, dfs);
        sched::set_park_timeout(None);
        return r;
    }
    explore_with(spec, vios, stats, deadline, Dfs::new(0, FaultPolicy::None))
}

fn schedule_from_json(r: &serde_json::Value) -> Vec<(usize, String)> {
    r["extra"]["schedule"]
        .as_array()
        .or_else(|| r["schedule"].as_array())
        .map(|a| a.iter().filter_map(|x| x.as_str()).filter_map(|s| s.split_once(':').map(|(t, l)| (t.parse().unwrap_or(0), l.to_string()))).collect())
        .unwrap_or_default()
}

/// Always runs the lowest-numbered enabled thread (the caller first).
struct CallerFirst;
impl sched::Chooser for CallerFirst {
    fn choose(&mut self, _step: usize, _enabled: &[sched::Enabled]) -> Option<usize> {
        Some(0)
    }
}

/// Impatient-drop probe: one execution per history in which the caller always
/// runs first, the `caller.join` gate does not wait for the worker, and the
/// caller's clock jumps while it is in the join. Code that really joins blocks
/// in the kernel there (supervised); code that only waits for a bounded time
/// gives up and returns from drop with the old worker still unfinished.
pub fn impatient_probe(spec: &C14Spec, vios: &mut Vec<Violation>, stats: &mut SchedStats) -> Result<(), Machinery> {
    sched::set_impatient(true);
    let mut dfs = Dfs::replaying(vec![], 0, FaultPolicy::None);
    // an empty forced schedule = always the first enabled transition (caller first)
    let _ = CallerFirst;
    dfs.forced = Some(vec![]);
    let r = explore_with(spec, vios, stats, Instant::now() + std::time::Duration::from_secs(300), dfs);
    sched::set_impatient(false);
    stats.outcome_add("impatient-drop-probes");
    r
}

/// Re-executes one recorded case.
pub fn replay(r: &serde_json::Value) -> i32 {
    let spec = C14Spec {
        prop: "C14".to_string(),
        phase1: r["phase1"].as_array().map(|a| a.iter().map(crate::schedx::sop_from_json).collect()).unwrap_or_default(),
        cfg: crate::seqx::cfg_from_json(&r["cfg"]),
        max_executions: 1,
        unwind_drop: r["unwind_drop"].as_bool().unwrap_or(false),
        worker_faults: r["worker_faults"].as_bool().unwrap_or(false),
        caller_first_only: false,
    };
    let mut vios = vec![];
    let mut stats = SchedStats::default();
    let mut dfs = if spec.worker_faults {
        let mut d = Dfs::replaying(schedule_from_json(r), 1, FaultPolicy::WorkerEioUnlink);
        d.fault_inst = Some(0);
        d
    } else {
        Dfs::replaying(schedule_from_json(r), 0, FaultPolicy::None)
    };
    if spec.worker_faults {
        sched::set_park_timeout(Some(std::time::Duration::from_secs(20)));
    }
    dfs.use_sleep = true;
    match explore_with(&spec, &mut vios, &mut stats, Instant::now() + std::time::Duration::from_secs(120), dfs) {
        Err(Machinery(m)) => {
            println!("REPLAY property=C14 could not be replayed on this tree: {}", m);
            2
        }
        Ok(()) => {
            if vios.is_empty() {
                println!("REPLAY property=C14 held for this case ({} steps)", stats.steps);
                0
            } else {
                for v in vios.iter().take(5) {
                    println!("REPLAY property=C14 VIOLATION key={} what={}", v.key, v.what);
                }
                1
            }
        }
    }
}

fn explore_with(spec: &C14Spec, vios: &mut Vec<Violation>, stats: &mut SchedStats, deadline: Instant, mut dfs: Dfs) -> Result<(), Machinery> {
    let pl = Arc::new(plan(&spec.phase1, &spec.cfg));
    stats.histories += 1;
    loop {
        dfs.begin_execution();
        let dir = ScratchDir::new();
        let out = Arc::new(Mutex::new(Out::default()));
        let b: sched::ThreadBody = {
            let spec = spec.clone();
            let pl = pl.clone();
            let d = dir.path.clone();
            let out = out.clone();
            Box::new(move || body(spec, pl, d, out))
        };
        let res = sched::run_execution(vec![(ThreadKind::Caller, b)], &mut dfs);
        if let Some(h) = &res.hung {
            let in_drop = res.trace.iter().any(|e| matches!(e, Event::Step { label, .. } if label.contains("drop1")))
                && !res.trace.iter().any(|e| matches!(e, Event::Note(n) if n == "drop1-returned"));
            if spec.worker_faults && in_drop {
                let sched_json = json!(dfs.schedule().iter().map(|(t, l)| format!("{}:{}", t, l)).collect::<Vec<_>>());
                vios.push(vio(
                    spec,
                    "drop-does-not-return-after-worker-failure",
                    format!("the store's drop did not return (no progress for 20 s, the caller is inside drop, every other thread has finished or is parked): {}", h),
                    json!({"schedule": sched_json}),
                ));
                // the stuck thread stays behind in this process: stop exploring here
                stats.tainted = true;
                return Ok(());
            }
            return Err(Machinery(format!("hang: {} | [{}]", h, shist_short(&spec.phase1))));
        }
        if let Some(d) = &dfs.divergence {
            return Err(Machinery(format!("nondeterminism while replaying a prefix: {} | [{}]", d, shist_short(&spec.phase1))));
        }
        stats.executions += 1;
        stats.steps += res.steps as u64;
        stats.scheduler_states += res.steps as u64;
        if res.degraded {
            stats.degraded += 1;
        }
        let sched_json = json!(dfs.schedule().iter().map(|(t, l)| format!("{}:{}", t, l)).collect::<Vec<_>>());
        // mechanism: did the first instance's worker still run after drop returned?
        let mut after_drop = false;
        let mut old_worker_steps_after_drop = 0;
        let mut mutations_after_drop: Vec<String> = vec![];
        let old_worker_tid = 1usize; // first worker spawned in the execution
        for e in &res.trace {
            match e {
                Event::Note(n) if n == "drop1-returned" => after_drop = true,
                Event::Step { tid, .. } if after_drop && *tid == old_worker_tid => old_worker_steps_after_drop += 1,
                Event::Fs { tid, call, ret, .. } if after_drop && *tid == old_worker_tid && *ret >= 0 => {
                    if matches!(call.kind, FsKind::Write | FsKind::Unlink | FsKind::Ftruncate | FsKind::Create) {
                        mutations_after_drop.push(format!("{:?}({})", call.kind, call.name));
                    }
                }
                _ => {}
            }
        }
        let pfx = if old_worker_steps_after_drop > 0 { "F9:old-worker-still-running-after-drop:" } else { "" };
        if !mutations_after_drop.is_empty() {
            vios.push(vio(
                spec,
                &format!("{}directory-changed-after-drop", pfx),
                format!("after drop returned, the first instance's worker still changed the directory: {:?}", mutations_after_drop),
                json!({"schedule": sched_json}),
            ));
        }
        if !res.unmanaged_fs.is_empty() {
            vios.push(vio(
                spec,
                "directory-changed-by-a-thread-the-store-does-not-join",
                format!("a thread other than the caller and the flush worker (started by the store, unknown to the scheduler, not joined by drop) changed the directory: {:?}", res.unmanaged_fs),
                json!({"schedule": sched_json}),
            ));
        }
        let o = out.lock().unwrap();
        for (k, w) in &o.problems {
            vios.push(vio(spec, &format!("{}{}", pfx, k), w.clone(), json!({"schedule": sched_json})));
        }
        for n in &o.notes {
            *stats.outcomes.entry(n.clone()).or_insert(0) += 1;
        }
        if spec.worker_faults {
            // an injected fault may well stop the first worker; the second instance gets none
            if res.worker_failed.first().copied().unwrap_or(false) {
                *stats.outcomes.entry("first-worker-stopped-by-injected-fault".to_string()).or_insert(0) += 1;
            }
            if old_worker_steps_after_drop > 0 {
                vios.push(vio(
                    spec,
                    "old-worker-still-running-after-drop-after-worker-fault",
                    "after drop returned the first instance's worker still took steps".to_string(),
                    json!({"schedule": sched_json}),
                ));
            }
        } else if res.worker_failed.iter().any(|x| *x) {
            vios.push(vio(
                spec,
                &format!("{}worker-died", pfx),
                format!("a flush worker terminated with an error (per instance: {:?})", res.worker_failed),
                json!({"schedule": sched_json}),
            ));
        }
        drop(o);
        if let Some(d) = &res.deadlock {
            vios.push(vio(spec, &format!("{}deadlock", pfx), format!("deadlock: {}", d), json!({"schedule": sched_json})));
            break;
        }
        *stats.outcomes.entry(if old_worker_steps_after_drop > 0 { "old-worker-ran-after-drop".to_string() } else { "old-worker-quiescent-at-drop".to_string() }).or_insert(0) += 1;
        if !dfs.next_branch() {
            break;
        }
        if dfs.stats.executions >= spec.max_executions || Instant::now() > deadline {
            stats.caps_hit += 1;
            break;
        }
    }
    stats.complete_executions += dfs.stats.complete;
    stats.sleep_blocked += dfs.stats.sleep_blocked;
    stats.max_schedule_len = stats.max_schedule_len.max(dfs.stats.max_steps);
    Ok(())
}
