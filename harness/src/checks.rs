//! Per-property check definitions: bounds per tier, engine dispatch, evidence.

use std::time::Duration;

use serde_json::json;
use serde_json::Value;

use crate::alphabet::Alpha;
use crate::report::Reporter;
use crate::seqx;
use crate::seqx::Oracles;
use crate::seqx::SeqSpec;
use crate::sut::Cfg;

fn seq_assumptions() -> Vec<String> {
    vec![
        "worker pinned to the eager policy: wait_worker_idle() after every operation (other worker timings are schedx's job)".into(),
        "types fixed to VT: LogId=(term,index), Vote=(term,node), String payload/user data".into(),
        "reference model (model.rs) and hand-written encoder (enc.rs) are trusted".into(),
        "state deduplication key = model state + predicted journal + cache residency/boundary + unflushed count + configuration".into(),
    ]
}

pub struct Phase {
    pub name: &'static str,
    pub spec: SeqSpec,
}

fn run_seq_phases(prop: &str, tier: &str, phases: Vec<Phase>, extra: Value) -> i32 {
    let rep = Reporter::new(prop, tier);
    run_seq_phases_with(&rep, phases, extra)
}

fn run_seq_phases_with(rep: &Reporter, phases: Vec<Phase>, extra: Value) -> i32 {
    let mut states = 0u64;
    let mut transitions = 0u64;
    let mut runs = 0u64;
    let mut probes = 0u64;
    let mut samples: Vec<Value> = vec![];
    let mut phase_reports = vec![];
    let mut exhaustive = true;
    let mut outcomes = 0u64;
    let mut machinery: Option<String> = None;
    for (pi, ph) in phases.iter().enumerate() {
        let r = seqx::search(&ph.spec, rep, pi);
        if let Some(e) = &r.machinery_error {
            machinery = Some(e.clone());
        }
        states += r.states;
        transitions += r.transitions;
        runs += r.runs;
        probes += r.probes;
        outcomes += r.distinct_api_outcomes;
        if r.cap_hit {
            exhaustive = false;
        }
        for s in r.samples.iter().take(3) {
            samples.push(s.clone());
        }
        use std::sync::atomic::Ordering::Relaxed;
        phase_reports.push(json!({
            "phase": ph.name,
            "alphabet": format!("{:?}", ph.spec.alpha),
            "depth_bound": ph.spec.depth,
            "depth_completed": r.depth_completed,
            "wall_cap_hit": r.cap_hit,
            "configurations": ph.spec.cfgs.iter().map(|c| c.short()).collect::<Vec<_>>(),
            "reopen_configurations": ph.spec.reopen_cfgs.iter().map(|c| c.short()).collect::<Vec<_>>(),
            "max_reopens_per_history": ph.spec.max_reopens,
            "max_refused_per_history": ph.spec.max_refused,
            "distinct_states": r.states,
            "histories_executed": r.transitions,
            "store_executions": r.runs,
            "argument_probes": r.probes,
            "per_depth_states_histories": r.per_depth.iter().map(|(d,s,t)| json!([d,s,t])).collect::<Vec<_>>(),
            "distinct_api_outcomes": r.distinct_api_outcomes,
            "refused_calls_executed": r.stats.refused_calls.load(Relaxed),
            "restarts_executed": r.stats.reopen_calls.load(Relaxed),
            "rotations_predicted": r.stats.rotations.load(Relaxed),
            "states_with_lazily_unevicted_entries_after_non_append_write": r.stats.lazy_eviction_states.load(Relaxed),
        }));
    }
    if samples.is_empty() {
        samples.push(json!("(no state beyond the root was generated)"));
    }
    let mut cov = json!({
        "states": states.max(1),
        "transitions": transitions.max(1),
        "traces_validated_against_impl": runs + probes,
        "samples": samples,
        "exhaustive": exhaustive,
        "distinct_api_outcomes": outcomes,
        "store_executions": runs,
        "argument_probes": probes,
        "phases": phase_reports,
        "explanation": "explicit-state BFS over operation histories; every transition executes the real store (fresh directory, full replay) under every listed configuration and is compared with the reference model; 'states' = distinct canonical keys, 'transitions' = histories executed, 'traces_validated_against_impl' = executions of the real store",
    });
    if let (Some(o), Some(e)) = (cov.as_object_mut(), extra.as_object()) {
        for (k, v) in e {
            o.insert(k.clone(), v.clone());
        }
    }
    let code = rep.finish("model_checking", cov, seq_assumptions());
    if let Some(e) = machinery {
        println!("MACHINERY-FAILURE: {}", e);
        return 2;
    }
    code
}

fn spec(prop: &str, alpha: Alpha, depth: usize, cfgs: Vec<Cfg>, oracles: Oracles, cap_s: u64) -> SeqSpec {
    SeqSpec {
        prop: prop.to_string(),
        alpha,
        depth,
        cfgs,
        reopen_cfgs: vec![],
        max_reopens: 0,
        max_refused: 0,
        oracles,
        wall_cap: Duration::from_secs(cap_s),
        grid_probes: false,
    }
}

fn chunk_cfgs_all() -> Vec<Cfg> {
    vec![
        Cfg::records(1),
        Cfg::records(2),
        Cfg::records(3),
        Cfg::records(4),
        Cfg::default(),
        Cfg::size(1),
        Cfg::size(60),
        Cfg::size(120),
    ]
}

/// The seqx phases of a property check (shared by the search and its
/// executor processes, which rebuild the same table).
pub fn seq_phases(prop: &str, tier: &str) -> Vec<Phase> {
    let thorough = tier == "thorough";
    match prop {
        "C01" => {
            let o = Oracles {
                semantics: true,
                ..Default::default()
            };
            if thorough {
                vec![
                    Phase {
                        name: "legal alphabet, all chunk configurations",
                        spec: spec(prop, Alpha::Legal, 5, chunk_cfgs_all(), o.clone(), 1200),
                    },
                    Phase {
                        name: "core alphabet, rotation every 1-2 writes, deeper",
                        spec: spec(prop, Alpha::Core, 6, vec![Cfg::records(2), Cfg::records(3), Cfg::size(60)], o.clone(), 1200),
                    },
                ]
            } else {
                vec![
                    Phase {
                        name: "legal alphabet, all chunk configurations",
                        spec: spec(prop, Alpha::Legal, 3, chunk_cfgs_all(), o.clone(), 40),
                    },
                    Phase {
                        name: "core alphabet, rotation every 1-2 writes, deeper",
                        spec: spec(prop, Alpha::Core, 4, vec![Cfg::records(2), Cfg::records(3)], o.clone(), 40),
                    },
                ]
            }
        }
        "C02" => {
            let o = Oracles {
                semantics: true,
                restart_epilogue: true,
                ..Default::default()
            };
            let reopen_cfgs = vec![
                Cfg::records(2).with_read_buf(Some(1)),
                Cfg::records(3).with_cache(Some(1), None),
                Cfg::default().with_cache(Some(0), None).with_read_buf(Some(7)),
                Cfg::records(2).with_cache(None, Some(5)),
                Cfg::size(60).with_read_buf(Some(0)),
            ];
            let cfgs = vec![Cfg::records(2), Cfg::records(3), Cfg::default()];
            let mut s = spec(prop, Alpha::Core, if thorough { 5 } else { 3 }, cfgs.clone(), o.clone(), if thorough { 1500 } else { 30 });
            s.reopen_cfgs = reopen_cfgs.clone();
            s.max_reopens = if thorough { 3 } else { 2 };
            let mut t = spec(prop, Alpha::Tiny, if thorough { 7 } else { 5 }, cfgs, o, if thorough { 1500 } else { 30 });
            t.reopen_cfgs = reopen_cfgs[..3].to_vec();
            t.max_reopens = if thorough { 3 } else { 2 };
            vec![
                Phase { name: "core alphabet + restarts under changed limits", spec: s },
                Phase { name: "tiny alphabet + restarts, deeper", spec: t },
            ]
        }
        "C06" => {
            let o = Oracles {
                semantics: true,
                refused_no_trace: true,
                restart_epilogue: true,
                ..Default::default()
            };
            let mut s = spec(prop, Alpha::Core, if thorough { 6 } else { 4 }, vec![Cfg::records(3)], o.clone(), if thorough { 1500 } else { 30 });
            s.max_refused = if thorough { 2 } else { 1 };
            let mut t = spec(
                prop,
                Alpha::Core,
                if thorough { 5 } else { 3 },
                vec![Cfg::default(), Cfg::size(60), Cfg::records(1)],
                o,
                if thorough { 1500 } else { 30 },
            );
            t.max_refused = if thorough { 2 } else { 1 };
            vec![
                Phase { name: "core alphabet with refused calls at every state, continued by legal operations (rotation every 2 writes)", spec: s },
                Phase { name: "same, other chunk limits", spec: t },
            ]
        }
        "C11" => {
            let o = Oracles {
                semantics: true,
                journal: true,
                ..Default::default()
            };
            let cfgs = vec![
                Cfg::records(0),
                Cfg::records(1),
                Cfg::records(2),
                Cfg::records(3),
                Cfg::size(0),
                Cfg::size(1),
                Cfg::size(60),
                Cfg::size(120),
            ];
            if thorough {
                vec![
                    Phase { name: "legal alphabet, chunk limits incl. 0 and 1", spec: spec(prop, Alpha::Legal, 5, cfgs, o.clone(), 1200) },
                    Phase {
                        name: "core alphabet, deeper",
                        spec: spec(prop, Alpha::Core, 6, vec![Cfg::records(2), Cfg::records(3), Cfg::size(60)], o.clone(), 1200),
                    },
                ]
            } else {
                vec![
                    Phase { name: "legal alphabet, chunk limits incl. 0 and 1", spec: spec(prop, Alpha::Legal, 3, cfgs, o.clone(), 40) },
                    Phase {
                        name: "core alphabet, deeper",
                        spec: spec(prop, Alpha::Core, 4, vec![Cfg::records(2), Cfg::records(3)], o.clone(), 40),
                    },
                ]
            }
        }
        "C15" => {
            let o = Oracles {
                cache: true,
                ..Default::default()
            };
            let mut cfgs = vec![];
            for items in [Some(0), Some(1), Some(2), None] {
                for cap in [Some(0), Some(5), None] {
                    cfgs.push(Cfg::records(3).with_cache(items, cap));
                }
            }
            let mut s = spec(prop, Alpha::Core, if thorough { 6 } else { 4 }, cfgs, o, if thorough { 1500 } else { 45 });
            s.max_refused = 1;
            vec![Phase { name: "core alphabet + refused calls under every cache limit (eager worker)", spec: s }]
        }
        "C16" => {
            let o = Oracles {
                panics_only: true,
                ..Default::default()
            };
            let mut s = spec(prop, Alpha::Core, if thorough { 4 } else { 2 }, vec![Cfg::records(3)], o, if thorough { 1500 } else { 45 });
            s.grid_probes = true;
            vec![Phase { name: "argument grid at every state reached by the core alphabet", spec: s }]
        }
        _ => vec![],
    }
}

pub fn seq_worker(prop: &str, tier: &str, phase: usize) -> i32 {
    let phases = seq_phases(prop, tier);
    let Some(ph) = phases.get(phase) else { return 2 };
    seqx::worker_loop(&ph.spec);
    0
}

pub fn run_check(prop: &str, tier: &str) -> i32 {
    match prop {
        "C01" | "C02" | "C06" | "C15" | "C16" => run_seq_phases(prop, tier, seq_phases(prop, tier), json!({})),
        "C11" => {
            let rep = Reporter::new(prop, tier);
            let n = crate::names::check_names(&rep);
            run_seq_phases_with(&rep, seq_phases(prop, tier), json!({"file_name_offsets_checked": n}))
        }
        "C09" | "C10" => {
            let rep = Reporter::new(prop, tier);
            let cov = if prop == "C09" {
                crate::imagex::run_c09(&rep, tier == "thorough")
            } else {
                crate::imagex::run_c10(&rep, tier == "thorough")
            };
            rep.finish(
                "model_checking",
                cov,
                vec![
                    "seed images are final directories of real runs over the core alphabet (depth bound), one per layout signature".into(),
                    "expected recovered state = replay of the completely present records through the reference model".into(),
                    "types fixed to VT".into(),
                ],
            )
        }
        "C13" => {
            let rep = Reporter::new(prop, tier);
            let mut cov = crate::lockx::run(&rep, tier == "thorough");
            if let Some(o) = cov.as_object_mut() {
                o.insert("explanation".into(), json!("process level: 3 contender processes (each may also try a second instance in-process) driven through EVERY command sequence over {open store, open dump, drop} up to the depth bound on a directory whose newest chunk has a torn tail; reference holder variable as oracle; refused attempts must leave all chunk files byte-identical. 'states' = command sequences, 'transitions' = commands executed."));
            }
            rep.finish(
                "model_checking",
                cov,
                vec!["flock semantics of the kernel trusted".into(), "3 processes; thread-level interleavings at libc-call granularity are covered by the fine level (schedx) when built".into()],
            )
        }
        "C12" => {
            let rep = Reporter::new(prop, tier);
            let cov = crate::codecx::run(&rep, tier == "thorough");
            rep.finish(
                "model_checking",
                cov,
                vec![
                    "types fixed to VT (u64 pairs, String)".into(),
                    "inputs beyond the structured space and beyond 2 arbitrary bytes are covered by representatives only".into(),
                    "independent encoder enc.rs trusted".into(),
                ],
            )
        }
        _ => {
            eprintln!("unknown property {}", prop);
            2
        }
    }
}

pub fn replay(path: &str) -> i32 {
    let s = std::fs::read_to_string(path).expect("read replay file");
    let v: Value = serde_json::from_str(&s).expect("parse replay file");
    let prop = v["property"].as_str().unwrap_or("?").to_string();
    let r = &v["replay"];
    match r["engine"].as_str().unwrap_or("") {
        "seqx" => seqx_replay(&prop, r),
        e => {
            eprintln!("replay for engine {:?} not supported", e);
            2
        }
    }
}

fn oracles_for(prop: &str) -> Oracles {
    match prop {
        "C01" => Oracles { semantics: true, ..Default::default() },
        "C02" => Oracles { semantics: true, restart_epilogue: true, ..Default::default() },
        "C06" => Oracles { semantics: true, refused_no_trace: true, restart_epilogue: true, ..Default::default() },
        "C11" => Oracles { semantics: true, journal: true, ..Default::default() },
        "C15" => Oracles { cache: true, ..Default::default() },
        _ => Oracles { panics_only: true, ..Default::default() },
    }
}

fn seqx_replay(prop: &str, r: &Value) -> i32 {
    let hist: Vec<crate::model::Op> = r["history"].as_array().unwrap().iter().map(seqx::op_from_json).collect();
    let cfg = seqx::cfg_from_json(&r["cfg"]);
    let mut s = spec(prop, Alpha::Legal, 0, vec![cfg], oracles_for(prop), 60);
    s.reopen_cfgs = r["reopen_cfgs"].as_array().map(|a| a.iter().map(seqx::cfg_from_json).collect()).unwrap_or_default();
    let stats = seqx::SeqStats::default();
    match seqx::run(&s, &hist, &cfg, &stats) {
        Ok(_) => {
            println!("REPLAY property={} held for this case", prop);
            0
        }
        Err(v) => {
            println!("REPLAY property={} VIOLATION key={} what={}", prop, v.key, v.what);
            1
        }
    }
}

/// Machinery-only self tests, run by setup_cmd. Exit 2 on failure.
pub fn selftest() -> i32 {
    use raft_log::codeq::Encode;
    let mut ok = true;
    // 1. assumption behind the scheduler's sufficiency argument: no `unsafe`
    let out = std::process::Command::new("grep")
        .args(["-rnw", "--include=*.rs", "unsafe", "/repo/src"])
        .output()
        .expect("grep");
    if !out.stdout.is_empty() {
        println!("SELFTEST-FAIL: `unsafe` found in /repo/src:\n{}", String::from_utf8_lossy(&out.stdout));
        ok = false;
    }
    // 2. the hand-written encoder agrees with the crate's on a record sample
    let recs = crate::codecx::structured_records(true);
    let mut n = 0;
    for r in &recs {
        let mine = crate::enc::encode(r);
        let real = crate::enc::to_real(r);
        let mut theirs = vec![];
        real.encode(&mut theirs).unwrap();
        if mine != theirs || crate::enc::from_real(&real) != *r {
            println!("SELFTEST-FAIL: encoder disagreement on {:?}", r);
            ok = false;
            break;
        }
        n += 1;
    }
    println!("selftest: encoder agreement on {} records", n);
    if ok {
        println!("selftest: ok");
        0
    } else {
        2
    }
}
