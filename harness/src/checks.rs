//! Per-property check definitions: bounds per tier, engine dispatch, evidence.

use std::time::Duration;

use serde_json::json;
use serde_json::Value;

use crate::alphabet::Alpha;
use crate::report::Reporter;
use crate::seqx;
use crate::seqx::Oracles;
use crate::seqx::SeqSpec;
use crate::sut::Cfg;

/// Multiplier for every internal wall cap (VX_CAP_MULT, default 1): lets a
/// check be run to the same bounds on a machine that is busy with other work.
pub fn cap_mult() -> u64 {
    std::env::var("VX_CAP_MULT").ok().and_then(|s| s.parse().ok()).unwrap_or(1)
}

/// A wall cap of `secs` seconds, scaled by VX_CAP_MULT and divided by
/// VX_CAP_DIV (default 1; for a time-boxed rehearsal of a thorough run: every
/// phase starts and is cut early, the caps are reported as hit).
pub fn cap_secs(secs: u64) -> u64 {
    let div: u64 = std::env::var("VX_CAP_DIV").ok().and_then(|s| s.parse().ok()).unwrap_or(1).max(1);
    (secs * cap_mult() / div).max(5)
}

fn seq_assumptions() -> Vec<String> {
    vec![
        "worker pinned to the eager policy: wait_worker_idle() after every operation (other worker timings are schedx's job)".into(),
        "types fixed to VT: LogId=(term,index), Vote=(term,node), String payload/user data".into(),
        "reference model (model.rs) and hand-written encoder (enc.rs) are trusted".into(),
        "state deduplication key = model state + predicted journal + cache residency/boundary + unflushed count + configuration".into(),
    ]
}

pub struct Phase {
    pub name: &'static str,
    pub spec: SeqSpec,
}

fn run_seq_phases(prop: &str, tier: &str, phases: Vec<Phase>, extra: Value) -> i32 {
    let rep = Reporter::new(prop, tier);
    run_seq_phases_with(&rep, phases, extra)
}

fn run_seq_phases_with(rep: &Reporter, phases: Vec<Phase>, extra: Value) -> i32 {
    let (cov, machinery) = seq_collect(rep, phases, extra);
    let code = rep.finish("model_checking", cov, seq_assumptions());
    if let Some(e) = machinery {
        println!("MACHINERY-FAILURE: {}", e);
        return 2;
    }
    code
}

fn seq_collect(rep: &Reporter, phases: Vec<Phase>, extra: Value) -> (Value, Option<String>) {
    let mut states = 0u64;
    let mut transitions = 0u64;
    let mut runs = 0u64;
    let mut probes = 0u64;
    let mut samples: Vec<Value> = vec![];
    let mut phase_reports = vec![];
    let mut exhaustive = true;
    let mut outcomes = 0u64;
    let mut machinery: Option<String> = None;
    for (pi, ph) in phases.iter().enumerate() {
        let r = seqx::search(&ph.spec, rep, pi);
        if let Some(e) = &r.machinery_error {
            machinery = Some(e.clone());
        }
        states += r.states;
        transitions += r.transitions;
        runs += r.runs;
        probes += r.probes;
        outcomes += r.distinct_api_outcomes;
        if r.cap_hit {
            exhaustive = false;
        }
        for s in r.samples.iter().take(3) {
            samples.push(s.clone());
        }
        use std::sync::atomic::Ordering::Relaxed;
        phase_reports.push(json!({
            "phase": ph.name,
            "alphabet": format!("{:?}", ph.spec.alpha),
            "depth_bound": ph.spec.depth,
            "depth_completed": r.depth_completed,
            "wall_cap_hit": r.cap_hit,
            "configurations": ph.spec.cfgs.iter().map(|c| c.short()).collect::<Vec<_>>(),
            "reopen_configurations": ph.spec.reopen_cfgs.iter().map(|c| c.short()).collect::<Vec<_>>(),
            "max_reopens_per_history": ph.spec.max_reopens,
            "max_refused_per_history": ph.spec.max_refused,
            "distinct_states": r.states,
            "histories_executed": r.transitions,
            "store_executions": r.runs,
            "argument_probes": r.probes,
            "per_depth_states_histories": r.per_depth.iter().map(|(d,s,t)| json!([d,s,t])).collect::<Vec<_>>(),
            "distinct_api_outcomes": r.distinct_api_outcomes,
            "refused_calls_executed": r.stats.refused_calls.load(Relaxed),
            "restarts_executed": r.stats.reopen_calls.load(Relaxed),
            "rotations_predicted": r.stats.rotations.load(Relaxed),
            "states_with_lazily_unevicted_entries_after_non_append_write": r.stats.lazy_eviction_states.load(Relaxed),
        }));
    }
    if samples.is_empty() {
        samples.push(json!("(no state beyond the root was generated)"));
    }
    let mut cov = json!({
        "states": states.max(1),
        "transitions": transitions.max(1),
        "traces_validated_against_impl": runs + probes,
        "samples": samples,
        "exhaustive": exhaustive,
        "distinct_api_outcomes": outcomes,
        "store_executions": runs,
        "argument_probes": probes,
        "phases": phase_reports,
        "explanation": "explicit-state BFS over operation histories; every transition executes the real store (fresh directory, full replay) under every listed configuration and is compared with the reference model; 'states' = distinct canonical keys, 'transitions' = histories executed, 'traces_validated_against_impl' = executions of the real store",
    });
    if let (Some(o), Some(e)) = (cov.as_object_mut(), extra.as_object()) {
        for (k, v) in e {
            o.insert(k.clone(), v.clone());
        }
    }
    (cov, machinery)
}

fn spec(prop: &str, alpha: Alpha, depth: usize, cfgs: Vec<Cfg>, oracles: Oracles, cap_s: u64) -> SeqSpec {
    SeqSpec {
        prop: prop.to_string(),
        alpha,
        depth,
        cfgs,
        reopen_cfgs: vec![],
        max_reopens: 0,
        max_refused: 0,
        refused_level: 0,
        roots_skip_inapplicable: false,
        oracles,
        wall_cap: Duration::from_secs(cap_secs(cap_s)),
        grid_probes: false,
        roots: vec![],
    }
}

/// Start states that short searches from the empty log do not reach: a
/// re-append with a lower term after a truncation (closed chunks whose closing
/// `last` is not monotone), a purged prefix with entries behind it, a double
/// truncation.
fn deep_roots() -> Vec<Vec<&'static str>> {
    vec![
        vec!["append", "append_t+2", "truncate_last", "append_t+1"],
        vec!["append", "append_t+2", "append", "truncate_last", "truncate_last", "append_t+1"],
        vec!["append", "append", "purge_first", "append"],
        vec!["append", "vote_up", "append_t+1", "commit_last", "user_data", "append"],
    ]
}

/// Periodic histories: every pattern of up to `max_pat` core symbols, repeated
/// `reps` times (symbols that are not applicable at a state are skipped). They
/// reach what a depth-bounded search cannot: many rotations, many purges, long
/// logs, counters that have to grow — still an exhaustively enumerated family.
fn periodic_roots(max_pat: usize, reps: &[usize]) -> Vec<Vec<&'static str>> {
    const CORE: [&str; 13] = [
        "append", "append_t+1", "append_t+2", "truncate_last", "truncate_first+1", "truncate_purged+1", "purge_first", "purge_last", "purge_beyond", "vote_up",
        "commit_last", "user_data", "flush",
    ];
    let mut pats: Vec<Vec<&'static str>> = vec![vec![]];
    let mut all: Vec<Vec<&'static str>> = vec![];
    for _ in 0..max_pat {
        let mut next = vec![];
        for p in &pats {
            for s in CORE {
                let mut q = p.clone();
                q.push(s);
                next.push(q);
            }
        }
        all.extend(next.iter().cloned());
        pats = next;
    }
    // a pattern without an append never builds a log: keep those that append,
    // and drop repetitions of a shorter pattern (aa = a repeated)
    all.retain(|p| p.iter().any(|s| s.starts_with("append")));
    all.retain(|p| !(p.len() == 2 && p[0] == p[1]) && !(p.len() == 3 && p[0] == p[1] && p[1] == p[2]));
    let mut out = vec![];
    for p in &all {
        for r in reps {
            let mut h = vec![];
            for _ in 0..*r {
                h.extend(p.iter().copied());
            }
            out.push(h);
        }
    }
    out
}

fn periodic_phase(prop: &str, cfgs: Vec<Cfg>, o: Oracles, thorough: bool) -> Phase {
    let mut s = spec(prop, Alpha::Core, 1, cfgs, o, if thorough { 1200 } else { 35 });
    s.roots = if thorough { 
        let mut v = periodic_roots(2, &[3, 6, 12]);
        v.extend(periodic_roots(3, &[4]).into_iter().filter(|h| h.len() == 12));
        v
    } else {
        periodic_roots(2, &[4, 8])
    };
    s.roots_skip_inapplicable = true;
    Phase { name: "periodic histories (every pattern of 1-2 core symbols repeated; thorough: also of 3) + one more operation", spec: s }
}

/// Scale phase: from start states built with bulk appends, the core alphabet
/// plus bulk appends for a few more levels.
fn scale_phase(prop: &str, cfgs: Vec<Cfg>, o: Oracles, thorough: bool) -> Phase {
    // chunk limits in the hundreds: bulk appends of 130 entries (caches above a
    // hundred entries, chunks of more than 255 records)
    let mut s = spec(prop, Alpha::ScaleBig, if thorough { 3 } else { 2 }, cfgs, o, if thorough { 1500 } else { 30 });
    s.roots = vec![
        vec!["append_bulk130"],
        vec!["append_bulk130", "append_bulk130"],
        vec!["append_bulk130", "append_bulk130", "flush"],
        vec!["append_bulk130", "append_bulk130", "append_bulk130"],
    ];
    Phase { name: "scale (large chunks): bulk appends of 130 entries (caches above a hundred entries, chunks above 255 records)", spec: s }
}

fn scale_small_phase(prop: &str, cfgs: Vec<Cfg>, o: Oracles, thorough: bool) -> Phase {
    // one or two records per chunk: a 40-entry append makes 40 chunk files, a purge
    // then removes dozens of them
    let mut s = spec(prop, Alpha::ScaleSmall, if thorough { 3 } else { 2 }, cfgs, o, if thorough { 1500 } else { 30 });
    s.roots = vec![
        vec!["append_bulk40"],
        vec!["append_bulk40", "purge_mid"],
        vec!["append_bulk40", "append_bulk40", "append_bulk40", "purge_mid", "flush"],
    ];
    Phase { name: "scale (tiny chunks): bulk appends of 40 entries (dozens of rotations and chunk removals)", spec: s }
}

/// The journal starts just below a power-of-two offset and crosses it within
/// the first records (2^16, 2^32, 2^40): offsets narrower than u64 would wrap.
fn high_offset_phase(prop: &str, o: Oracles, thorough: bool) -> Phase {
    let mut cfgs = vec![Cfg::records(3).starting_at((1u64 << 32) - 40), Cfg::records(2).starting_at((1u64 << 16) - 30)];
    if thorough {
        cfgs.push(Cfg::records(3).starting_at((1u64 << 40) - 70));
    }
    let s = spec(prop, Alpha::Core, if thorough { 4 } else { 3 }, cfgs, o, if thorough { 900 } else { 30 });
    Phase { name: "journal starting just below offsets 2^16, 2^32, 2^40 (crossed within the first records)", spec: s }
}

/// both chunk limits set; with the harness's record sizes sometimes the size
/// limit (100 bytes: a head snapshot with user data + one State record) and
/// sometimes the record limit (3) is reached first
fn both_limits() -> Cfg {
    let mut c = Cfg::records(3);
    c.max_size = Some(100);
    c
}

fn chunk_cfgs_all() -> Vec<Cfg> {
    vec![
        Cfg::records(1),
        Cfg::records(2),
        Cfg::records(3),
        Cfg::records(4),
        Cfg::default(),
        Cfg::size(1),
        Cfg::size(60),
        Cfg::size(120),
    ]
}

/// The seqx phases of a property check (shared by the search and its
/// executor processes, which rebuild the same table).
pub fn seq_phases(prop: &str, tier: &str) -> Vec<Phase> {
    let thorough = tier == "thorough";
    match prop {
        "C01" => {
            let o = Oracles {
                semantics: true,
                ..Default::default()
            };
            if thorough {
                vec![
                    Phase {
                        name: "legal alphabet, all chunk configurations",
                        spec: spec(prop, Alpha::Legal, 5, chunk_cfgs_all(), o.clone(), 1200),
                    },
                    Phase {
                        name: "core alphabet, rotation every 1-2 writes, deeper",
                        spec: spec(prop, Alpha::Core, 6, vec![Cfg::records(2), Cfg::records(3), Cfg::size(60)], o.clone(), 1200),
                    },
                    Phase {
                        name: "from deep start states (lower-term re-append, purged prefix, double truncation)",
                        spec: {
                            let mut s = spec(prop, Alpha::Core, 4, vec![Cfg::records(2), Cfg::records(3)], o.clone(), 900);
                            s.roots = deep_roots();
                            s
                        },
                    },
                    periodic_phase(prop, vec![Cfg::records(2), Cfg::records(3)], o.clone(), thorough),
                    scale_phase(prop, vec![Cfg::records(300)], o.clone(), thorough),
                    scale_small_phase(prop, vec![Cfg::records(2)], o.clone(), thorough),
                    high_offset_phase(prop, o.clone(), thorough),
                ]
            } else {
                vec![
                    Phase {
                        name: "legal alphabet, all chunk configurations",
                        spec: spec(prop, Alpha::Legal, 3, chunk_cfgs_all(), o.clone(), 40),
                    },
                    Phase {
                        name: "core alphabet, rotation every 1-2 writes, deeper",
                        spec: spec(prop, Alpha::Core, 5, vec![Cfg::records(2), Cfg::records(3)], o.clone(), 40),
                    },
                    Phase {
                        name: "from deep start states (lower-term re-append, purged prefix, double truncation)",
                        spec: {
                            let mut s = spec(prop, Alpha::Core, 2, vec![Cfg::records(2), Cfg::records(3)], o.clone(), 30);
                            s.roots = deep_roots();
                            s
                        },
                    },
                    periodic_phase(prop, vec![Cfg::records(2), Cfg::records(3)], o.clone(), thorough),
                    scale_phase(prop, vec![Cfg::records(300)], o.clone(), thorough),
                    scale_small_phase(prop, vec![Cfg::records(2)], o.clone(), thorough),
                    high_offset_phase(prop, o.clone(), thorough),
                ]
            }
        }
        "C02" => {
            let o = Oracles {
                semantics: true,
                restart_epilogue: true,
                ..Default::default()
            };
            let reopen_cfgs = vec![
                Cfg::records(2).with_read_buf(Some(1)),
                Cfg::records(3).with_cache(Some(1), None),
                Cfg::default().with_cache(Some(0), None).with_read_buf(Some(7)),
                Cfg::records(2).with_cache(None, Some(5)),
                Cfg::size(60).with_read_buf(Some(0)),
            ];
            let cfgs = vec![Cfg::records(2), Cfg::records(3), Cfg::default()];
            let mut s = spec(prop, Alpha::Core, if thorough { 5 } else { 3 }, cfgs.clone(), o.clone(), if thorough { 1500 } else { 30 });
            s.reopen_cfgs = reopen_cfgs.clone();
            s.max_reopens = if thorough { 3 } else { 2 };
            let mut t = spec(prop, Alpha::Tiny, if thorough { 7 } else { 5 }, cfgs, o, if thorough { 1500 } else { 30 });
            t.reopen_cfgs = reopen_cfgs[..3].to_vec();
            t.max_reopens = if thorough { 3 } else { 2 };
            let mut p = periodic_phase(prop, vec![Cfg::records(2), Cfg::records(3)], Oracles { semantics: true, restart_epilogue: true, ..Default::default() }, thorough);
            p.spec.reopen_cfgs = reopen_cfgs[..3].to_vec();
            p.spec.max_reopens = 1;
            vec![
                Phase { name: "core alphabet + restarts under changed limits", spec: s },
                Phase { name: "tiny alphabet + restarts, deeper", spec: t },
                p,
                {
                    let mut sc = scale_phase(prop, vec![Cfg::records(300)], Oracles { semantics: true, restart_epilogue: true, ..Default::default() }, thorough);
                    sc.spec.depth = if thorough { 2 } else { 1 };
                    sc.spec.reopen_cfgs = reopen_cfgs[..2].to_vec();
                    sc.spec.max_reopens = 1;
                    sc
                },
                {
                    let mut sc = scale_small_phase(prop, vec![Cfg::records(2)], Oracles { semantics: true, restart_epilogue: true, ..Default::default() }, thorough);
                    sc.spec.depth = if thorough { 2 } else { 1 };
                    sc.spec.reopen_cfgs = reopen_cfgs[..1].to_vec();
                    sc.spec.max_reopens = 1;
                    sc
                },
            ]
        }
        "C07" => {
            // eager-worker dimension: every read at every state under small payload
            // caches and frequent rotation (the worker-timing dimension is schedx's)
            let o = Oracles {
                semantics: true,
                ..Default::default()
            };
            let cfgs = vec![
                Cfg::records(2).with_cache(Some(0), None),
                Cfg::records(3).with_cache(None, Some(5)),
                Cfg::size(120).with_cache(Some(1), None),
            ];
            let mut v = vec![Phase {
                name: "legal alphabet (incl. batches and 40 000-byte entries), eager worker, small caches",
                spec: spec(prop, Alpha::Legal, if thorough { 4 } else { 3 }, cfgs.clone(), o.clone(), if thorough { 1200 } else { 35 }),
            }];
            v.push(periodic_phase(prop, cfgs[..2].to_vec(), o.clone(), thorough));
            if thorough {
                v.push(Phase {
                    name: "core alphabet, deeper, small caches",
                    spec: spec(prop, Alpha::Core, 6, cfgs[..2].to_vec(), o.clone(), 1200),
                });
            }
            v
        }
        "C06" => {
            let o = Oracles {
                semantics: true,
                refused_no_trace: true,
                restart_epilogue: true,
                ..Default::default()
            };
            let mut s = spec(prop, Alpha::Core, if thorough { 6 } else { 4 }, vec![Cfg::records(3)], o.clone(), if thorough { 1500 } else { 45 });
            s.max_refused = if thorough { 2 } else { 1 };
            s.refused_level = if thorough { 2 } else { 0 };
            let mut t = spec(
                prop,
                Alpha::Core,
                if thorough { 5 } else { 3 },
                vec![Cfg::default(), Cfg::size(60), Cfg::records(1)],
                o,
                if thorough { 1500 } else { 30 },
            );
            t.max_refused = if thorough { 2 } else { 1 };
            t.refused_level = if thorough { 2 } else { 1 };
            // long batches (300 / 1100 entries) with a refused entry in the middle, at
            // the empty log and after every single operation
            let mut lb = spec(prop, Alpha::Core, 2, vec![Cfg::default(), Cfg::records(300)], Oracles { semantics: true, refused_no_trace: true, restart_epilogue: true, ..Default::default() }, if thorough { 600 } else { 30 });
            lb.max_refused = 1;
            lb.refused_level = 3;
            vec![
                Phase { name: "core alphabet with refused calls at every state, continued by legal operations (rotation every 2 writes)", spec: s },
                Phase { name: "same, other chunk limits", spec: t },
                Phase { name: "refused long batches (300 / 1100 entries, lower-term entry in the middle)", spec: lb },
            ]
        }
        "C11" => {
            let o = Oracles {
                semantics: true,
                journal: true,
                ..Default::default()
            };
            let cfgs = vec![
                Cfg::records(0),
                Cfg::records(1),
                Cfg::records(2),
                Cfg::records(3),
                Cfg::size(0),
                Cfg::size(1),
                Cfg::size(60),
                Cfg::size(120),
            ];
            if thorough {
                vec![
                    Phase { name: "legal alphabet, chunk limits incl. 0 and 1", spec: spec(prop, Alpha::Legal, 5, cfgs, o.clone(), 1200) },
                    Phase {
                        name: "core alphabet, deeper",
                        spec: spec(prop, Alpha::Core, 6, vec![Cfg::records(2), Cfg::records(3), Cfg::size(60), both_limits()], o.clone(), 1200),
                    },
                    Phase {
                        name: "from deep start states (lower-term re-append, purged prefix, double truncation)",
                        spec: {
                            let mut s = spec(prop, Alpha::Core, 4, vec![Cfg::records(2), Cfg::records(3)], o.clone(), 900);
                            s.roots = deep_roots();
                            s
                        },
                    },
                    periodic_phase(prop, if thorough { vec![Cfg::records(2), Cfg::records(3), Cfg::size(100)] } else { vec![Cfg::records(2), Cfg::size(100)] }, o.clone(), thorough),
                    {
                        let mut p = scale_phase(prop, vec![Cfg::records(300)], o.clone(), thorough);
                        p.spec.depth = if thorough { 3 } else { 1 };
                        p
                    },
                    {
                        let mut p = scale_small_phase(prop, vec![Cfg::records(2)], o.clone(), thorough);
                        p.spec.depth = if thorough { 3 } else { 1 };
                        p
                    },
                    high_offset_phase(prop, o.clone(), thorough),
                ]
            } else {
                vec![
                    Phase { name: "legal alphabet, chunk limits incl. 0 and 1", spec: spec(prop, Alpha::Legal, 3, cfgs, o.clone(), 40) },
                    Phase {
                        name: "core alphabet, deeper (incl. both limits set: whichever is reached first closes the file)",
                        spec: spec(prop, Alpha::Core, 4, vec![Cfg::records(2), Cfg::records(3), both_limits()], o.clone(), 40),
                    },
                    Phase {
                        name: "from deep start states (lower-term re-append, purged prefix, double truncation)",
                        spec: {
                            let mut s = spec(prop, Alpha::Core, 2, vec![Cfg::records(2), Cfg::records(3)], o.clone(), 30);
                            s.roots = deep_roots();
                            s
                        },
                    },
                    periodic_phase(prop, if thorough { vec![Cfg::records(2), Cfg::records(3), Cfg::size(100)] } else { vec![Cfg::records(2), Cfg::size(100)] }, o.clone(), thorough),
                    {
                        let mut p = scale_phase(prop, vec![Cfg::records(300)], o.clone(), thorough);
                        p.spec.depth = if thorough { 3 } else { 1 };
                        p
                    },
                    {
                        let mut p = scale_small_phase(prop, vec![Cfg::records(2)], o.clone(), thorough);
                        p.spec.depth = if thorough { 3 } else { 1 };
                        p
                    },
                    high_offset_phase(prop, o.clone(), thorough),
                ]
            }
        }
        "C15" => {
            let o = Oracles {
                cache: true,
                ..Default::default()
            };
            let mut cfgs = vec![];
            for items in [Some(0), Some(1), Some(2), None] {
                for cap in [Some(0), Some(5), None] {
                    cfgs.push(Cfg::records(3).with_cache(items, cap));
                }
            }
            let mut s = spec(prop, Alpha::Core, if thorough { 6 } else { 4 }, cfgs.clone(), o.clone(), if thorough { 1500 } else { 45 });
            s.max_refused = 1;
            // start states in which log-id order and index order of the resident
            // entries and the boundary differ (re-appends after truncations, with a
            // flush in between so that the boundary has advanced)
            let mut r = spec(prop, Alpha::Core, if thorough { 3 } else { 2 }, cfgs, o, if thorough { 900 } else { 30 });
            r.roots = vec![
                vec!["append", "append_t+2", "flush", "truncate_last", "append_t+1"],
                vec!["append", "append", "append", "flush", "truncate_last", "truncate_last", "append_t+1"],
                vec!["append", "append_t+2", "append", "flush", "truncate_last", "truncate_last", "append_t+1", "append"],
            ];
            // the same start states with a drain after every operation
            let mut d = r.clone();
            d.oracles.drain_each = true;
            d.cfgs = vec![Cfg::records(3).with_cache(Some(2), None), Cfg::records(3).with_cache(None, None), Cfg::records(3).with_cache(Some(0), Some(5))];
            let mut d0 = spec(prop, Alpha::Core, if thorough { 5 } else { 3 }, d.cfgs.clone(), d.oracles.clone(), if thorough { 900 } else { 30 });
            d0.oracles.drain_each = true;
            vec![
                Phase { name: "core alphabet + refused calls under every cache limit (eager worker)", spec: s },
                Phase { name: "from start states with re-appended entries and an advanced boundary", spec: r },
                Phase { name: "the same start states, evictable entries drained after every operation", spec: d },
                Phase { name: "core alphabet, drained after every operation", spec: d0 },
                periodic_phase(prop, vec![Cfg::records(3).with_cache(Some(0), None), Cfg::records(2).with_cache(Some(2), Some(5))], Oracles { cache: true, drain_each: true, ..Default::default() }, thorough),
                scale_phase(prop, vec![Cfg::records(300).with_cache(Some(2), None), Cfg::records(50).with_cache(Some(0), None), Cfg::records(200).with_cache(None, Some(100))], Oracles { cache: true, ..Default::default() }, thorough),
            ]
        }
        "C16" => {
            let o = Oracles {
                panics_only: true,
                ..Default::default()
            };
            let mut s = spec(prop, Alpha::Core, if thorough { 4 } else { 3 }, vec![Cfg::records(3)], o, if thorough { 1500 } else { 45 });
            s.grid_probes = true;
            // the same probes where reads miss the cache: small caches, start states
            // with re-appended entries and an advanced boundary (where the unchanged
            // crate answers a read with an error — F3 — a panic is still a panic)
            let mut r = spec(
                prop,
                Alpha::Core,
                if thorough { 2 } else { 1 },
                vec![Cfg::records(3).with_cache(Some(0), None), Cfg::records(2).with_cache(None, Some(5))],
                Oracles { panics_only: true, ..Default::default() },
                if thorough { 900 } else { 30 },
            );
            r.grid_probes = true;
            r.roots = vec![
                vec!["append", "append_t+2", "flush", "truncate_last", "append_t+1"],
                vec!["append", "append", "append", "flush", "truncate_last", "truncate_last", "append_t+1"],
                vec!["append", "append", "append", "flush", "append"],
            ];
            vec![
                Phase { name: "argument grid at every state reached by the core alphabet", spec: s },
                Phase { name: "argument grid under small caches, from start states with evicted and re-appended entries", spec: r },
            ]
        }
        _ => vec![],
    }
}

pub fn seq_worker(prop: &str, tier: &str, phase: usize) -> i32 {
    let phases = seq_phases(prop, tier);
    let Some(ph) = phases.get(phase) else { return 2 };
    seqx::worker_loop(&ph.spec);
    0
}

pub fn run_check(prop: &str, tier: &str) -> i32 {
    match prop {
        "C01" | "C02" | "C06" => run_seq_phases(prop, tier, seq_phases(prop, tier), json!({})),
        "C16" => {
            let rep = Reporter::new(prop, tier);
            let n = crate::probes::run_dir_probes(&rep);
            run_seq_phases_with(&rep, seq_phases(prop, tier), json!({"directory_situation_probes": n}))
        }
        "C15" => {
            // eager-worker dimension (seqx) + worker-timing dimension (schedx)
            let rep = Reporter::new(prop, tier);
            let (mut cov, m1) = seq_collect(&rep, seq_phases(prop, tier), json!({}));
            let c = sched_collect(&rep, prop, tier);
            if let Some(o) = cov.as_object_mut() {
                let add = |o: &mut serde_json::Map<String, Value>, k: &str, n: u64| {
                    let cur = o.get(k).and_then(|v| v.as_u64()).unwrap_or(0);
                    o.insert(k.to_string(), json!(cur + n));
                };
                add(o, "states", c.stats.scheduler_states);
                add(o, "transitions", c.stats.steps);
                add(o, "traces_validated_against_impl", c.stats.executions);
                if c.stats.caps_hit > 0 || c.skipped > 0 {
                    o.insert("exhaustive".into(), json!(false));
                }
                o.insert("worker_timing_dimension".into(), json!({
                    "work_items_history_x_config": c.items,
                    "histories_skipped_by_wall_cap": c.skipped,
                    "detail": c.stats.to_json(),
                    "samples": c.samples,
                    "explanation": SCHED_EXPLANATION,
                }));
            }
            // restart dimension (clean and torn images re-opened under small caches)
            let rs = crate::imagex::run_c15_restart(&rep, tier == "thorough");
            if let Some(o) = cov.as_object_mut() {
                let n = rs["restart_cases"].as_u64().unwrap_or(0);
                for k in ["states", "transitions", "traces_validated_against_impl"] {
                    let cur = o.get(k).and_then(|v| v.as_u64()).unwrap_or(0);
                    o.insert(k.to_string(), json!(cur + n));
                }
                o.insert("restart_dimension".into(), rs);
            }
            let mut assumptions = seq_assumptions();
            assumptions.extend(sched_assumptions());
            let code = rep.finish("model_checking", cov, assumptions);
            if let Some(m) = m1.or(c.machinery) {
                println!("MACHINERY-FAILURE: {}", m);
                return 2;
            }
            code
        }
        "C11" => {
            let rep = Reporter::new(prop, tier);
            let n = crate::names::check_names(&rep);
            run_seq_phases_with(&rep, seq_phases(prop, tier), json!({"file_name_offsets_checked": n}))
        }
        "C03" | "C05" | "C04" | "C08" | "C14" => run_sched_check(prop, tier),
        "C07" => {
            let rep = Reporter::new(prop, tier);
            // the reader harness has few, long work items: run it alongside
            let (c, r) = std::thread::scope(|sc| {
                let hr = sc.spawn(|| sched_collect(&rep, "C07R", tier));
                let c = sched_collect(&rep, prop, tier);
                (c, hr.join().expect("reader harness collector"))
            });
            let mut samples = c.samples.clone();
            samples.extend(r.samples.clone());
            if samples.is_empty() {
                samples.push(json!("(no history explored)"));
            }
            // eager-worker dimension (seqx), after the scheduler runs (both use all cores)
            let (seq_cov, seq_machinery) = seq_collect(&rep, seq_phases(prop, tier), json!({}));
            let sq = |k: &str| seq_cov.get(k).and_then(|v| v.as_u64()).unwrap_or(0);
            let cov = json!({
                "states": (c.stats.scheduler_states + r.stats.scheduler_states + sq("states")).max(1),
                "transitions": (c.stats.steps + r.stats.steps + sq("transitions")).max(1),
                "traces_validated_against_impl": c.stats.executions + r.stats.executions + sq("traces_validated_against_impl"),
                "samples": samples,
                "exhaustive": c.stats.caps_hit == 0 && c.skipped == 0 && r.stats.caps_hit == 0 && r.skipped == 0 && seq_cov.get("exhaustive").and_then(|v| v.as_bool()).unwrap_or(false),
                "eager_worker_dimension": seq_cov,
                "work_items_history_x_config": c.items,
                "histories_skipped_by_wall_cap": c.skipped,
                "detail": c.stats.to_json(),
                "reader_harness": {
                    "work_items": r.items,
                    "skipped_by_wall_cap": r.skipped,
                    "detail": r.stats.to_json(),
                    "explanation": "after the history (no waiting) the store is shared through an Arc with two reader threads (read(0,MAX)) and a drainer thread (drain_cache_evictable) while the flush worker still processes the queue; every cache access and pread64 is a scheduling point; all interleavings of the five threads; every reader must return exactly the model's entries",
                },
                "explanation": SCHED_EXPLANATION,
            });
            let code = rep.finish("model_checking", cov, sched_assumptions());
            if let Some(m) = c.machinery.or(r.machinery).or(seq_machinery) {
                println!("MACHINERY-FAILURE: {}", m);
                return 2;
            }
            code
        }
        "C09" | "C10" => {
            let rep = Reporter::new(prop, tier);
            let cov = if prop == "C09" {
                crate::imagex::run_c09(&rep, tier == "thorough")
            } else {
                crate::imagex::run_c10(&rep, tier == "thorough")
            };
            rep.finish(
                "model_checking",
                cov,
                vec![
                    "seed images are final directories of real runs over the core alphabet (depth bound), one per layout signature".into(),
                    "expected recovered state = replay of the completely present records through the reference model".into(),
                    "types fixed to VT".into(),
                ],
            )
        }
        "C13" => {
            let rep = Reporter::new(prop, tier);
            let mut cov = crate::lockx::run(&rep, tier == "thorough");
            let (fine, machinery) = crate::lockfine::run(&rep, tier == "thorough");
            if let (Some(o), Some(f)) = (cov.as_object_mut(), fine.as_object()) {
                let add = |o: &mut serde_json::Map<String, Value>, k: &str, n: u64| {
                    let cur = o.get(k).and_then(|v| v.as_u64()).unwrap_or(0);
                    o.insert(k.to_string(), json!(cur + n));
                };
                add(o, "states", f["fine_level_steps"].as_u64().unwrap_or(0));
                add(o, "transitions", f["fine_level_steps"].as_u64().unwrap_or(0));
                add(o, "traces_validated_against_impl", f["fine_level_executions"].as_u64().unwrap_or(0));
                if f["fine_level_wall_cap_hit"].as_bool() == Some(true) {
                    o.insert("exhaustive".into(), json!(false));
                }
                for (k, v) in f {
                    o.insert(k.clone(), v.clone());
                }
            }
            if let Some(m) = machinery {
                println!("MACHINERY-FAILURE: {}", m);
                let _ = rep.finish("model_checking", cov, vec![]);
                return 2;
            }
            if let Some(o) = cov.as_object_mut() {
                o.insert("explanation".into(), json!("process level: 3 contender processes (each may also try a second instance in-process) driven through EVERY command sequence over {open store, open dump, drop} up to the depth bound on a directory whose newest chunk has a torn tail; reference holder variable as oracle; refused attempts must leave all chunk files byte-identical. Thread level (fine_level_*): 2-3 contender threads each running open;drop (store or dump) under the controlled scheduler with every libc file-system call a scheduling point, ALL interleavings (sleep-set DFS); trace oracle: ownership intervals disjoint, every chunk-file mutation inside its issuer's interval. 'states'/'transitions' = command sequences/commands + scheduler steps."));
            }
            rep.finish(
                "model_checking",
                cov,
                vec!["flock semantics of the kernel trusted".into(), "3 processes (command level), 2-3 threads (libc-call level)".into()],
            )
        }
        "C12" => {
            let rep = Reporter::new(prop, tier);
            let cov = crate::codecx::run(&rep, tier == "thorough");
            rep.finish(
                "model_checking",
                cov,
                vec![
                    "types fixed to VT (u64 pairs, String)".into(),
                    "inputs beyond the structured space and beyond 2 arbitrary bytes are covered by representatives only".into(),
                    "independent encoder enc.rs trusted".into(),
                ],
            )
        }
        _ => {
            eprintln!("unknown property {}", prop);
            2
        }
    }
}

pub fn replay(path: &str) -> i32 {
    let s = std::fs::read_to_string(path).expect("read replay file");
    let v: Value = serde_json::from_str(&s).expect("parse replay file");
    let prop = v["property"].as_str().unwrap_or("?").to_string();
    let r = &v["replay"];
    match r["engine"].as_str().unwrap_or("") {
        "seqx" => seqx_replay(&prop, r),
        "schedx" => schedx::replay(&prop, r),
        "seqx-probe" => crate::probes::replay(&prop, r),
        "c14" => crate::c14::replay(r),
        "readers" => crate::readers::replay(r),
        e @ ("imagex-tail" | "imagex-mutate" | "imagex-missing" | "imagex-c15" | "codecx") => {
            let rep = Reporter::new(&prop, "replay");
            let ran = if e == "codecx" { crate::codecx::replay(&rep, r) } else { crate::imagex::replay(&rep, r) };
            if !ran {
                return 2;
            }
            let classes = rep.classes();
            if classes.is_empty() {
                println!("REPLAY property={} held for this case", prop);
                0
            } else {
                for (k, w, known) in &classes {
                    println!("REPLAY property={} {} key={} what={}", prop, if *known { "KNOWN-FINDING" } else { "VIOLATION" }, k, w);
                }
                if classes.iter().any(|c| !c.2) {
                    1
                } else {
                    0
                }
            }
        }
        e => {
            eprintln!("replay for engine {:?} not supported", e);
            2
        }
    }
}

fn oracles_for(prop: &str) -> Oracles {
    match prop {
        "C01" => Oracles { semantics: true, ..Default::default() },
        "C02" => Oracles { semantics: true, restart_epilogue: true, ..Default::default() },
        "C06" => Oracles { semantics: true, refused_no_trace: true, restart_epilogue: true, ..Default::default() },
        "C11" => Oracles { semantics: true, journal: true, ..Default::default() },
        "C15" => Oracles { cache: true, ..Default::default() },
        "C07" => Oracles { semantics: true, ..Default::default() },
        _ => Oracles { panics_only: true, ..Default::default() },
    }
}

fn seqx_replay(prop: &str, r: &Value) -> i32 {
    let hist: Vec<crate::model::Op> = r["history"].as_array().unwrap().iter().map(seqx::op_from_json).collect();
    let cfg = seqx::cfg_from_json(&r["cfg"]);
    // the oracle switches of the phase that found the case (older files: by property)
    let o = match r["oracles"].as_object() {
        Some(m) => {
            let b = |k: &str| m.get(k).and_then(|v| v.as_bool()).unwrap_or(false);
            Oracles {
                semantics: b("semantics"),
                journal: b("journal"),
                restart_epilogue: b("restart_epilogue"),
                refused_no_trace: b("refused_no_trace"),
                cache: b("cache"),
                panics_only: b("panics_only"),
                drain_each: b("drain_each"),
            }
        }
        None => oracles_for(prop),
    };
    let mut s = spec(prop, Alpha::Legal, 0, vec![cfg], o, 60);
    s.reopen_cfgs = r["reopen_cfgs"].as_array().map(|a| a.iter().map(seqx::cfg_from_json).collect()).unwrap_or_default();
    let stats = seqx::SeqStats::default();
    match seqx::run(&s, &hist, &cfg, &stats) {
        Ok(_) => {
            println!("REPLAY property={} held for this case", prop);
            0
        }
        Err(v) => {
            println!("REPLAY property={} VIOLATION key={} what={}", prop, v.key, v.what);
            1
        }
    }
}

/// Machinery-only self tests, run by setup_cmd. Exit 2 on failure.
pub fn selftest() -> i32 {
    use raft_log::codeq::Encode;
    let mut ok = true;
    // 1. assumption behind the scheduler's sufficiency argument: no `unsafe`
    let out = std::process::Command::new("grep")
        .args(["-rnw", "--include=*.rs", "unsafe", "/repo/src"])
        .output()
        .expect("grep");
    if !out.stdout.is_empty() {
        println!("SELFTEST-FAIL: `unsafe` found in /repo/src:\n{}", String::from_utf8_lossy(&out.stdout));
        ok = false;
    }
    // 2. the hand-written encoder agrees with the crate's on a record sample
    let recs = crate::codecx::structured_records(true);
    let mut n = 0;
    for r in &recs {
        let mine = crate::enc::encode(r);
        let real = crate::enc::to_real(r);
        let mut theirs = vec![];
        real.encode(&mut theirs).unwrap();
        if mine != theirs || crate::enc::from_real(&real) != *r {
            println!("SELFTEST-FAIL: encoder disagreement on {:?}", r);
            ok = false;
            break;
        }
        n += 1;
    }
    println!("selftest: encoder agreement on {} records", n);
    // 3. explorer: independent steps -> 1 execution; dependent -> C(2n,n); lost update found
    let (c, b, _) = crate::sched::toy_explore(3, false, false);
    println!("selftest: 2 threads x 3 independent steps: {} complete, {} sleep-blocked executions", c, b);
    if c != 1 {
        println!("SELFTEST-FAIL: expected exactly 1 complete execution");
        ok = false;
    }
    let (c, b, _) = crate::sched::toy_explore(3, true, false);
    println!("selftest: 2 threads x 3 dependent steps: {} complete, {} sleep-blocked executions", c, b);
    if c != 20 {
        println!("SELFTEST-FAIL: expected C(6,3)=20 complete executions");
        ok = false;
    }
    let (c, _, lost) = crate::sched::toy_explore(1, true, true);
    println!("selftest: lost-update toy: {} executions, {} with a lost update", c, lost);
    if lost == 0 {
        println!("SELFTEST-FAIL: the seeded lost update was not found");
        ok = false;
    }
    if ok {
        println!("selftest: ok");
        0
    } else {
        2
    }
}

// ---------------------------------------------------------------------------
// schedx checks
// ---------------------------------------------------------------------------

use crate::sched::FaultPolicy;
use crate::schedx;
use crate::schedx::HistSpec;
use crate::schedx::SOp;
use crate::schedx::Sym;

fn base_spec(prop: &str, hist: Vec<SOp>, cfg: Cfg) -> HistSpec {
    HistSpec {
        prop: prop.to_string(),
        hist,
        cfg,
        crash: false,
        every_byte_newest: false,
        max_faults: 0,
        fault_policy: FaultPolicy::None,
        o_c03: false,
        o_c04: false,
        o_c05: false,
        o_c07: false,
        o_c08: false,
        o_c15: false,
        max_executions: 200_000,
        lock_window: false,
        nested: false,
        fixed: false,
        caller_first_only: false,
        crash_final_only: false,
    }
}

/// Long-queue probe: `n` x (write; flush) issued before the worker gets to run
/// (one schedule: the caller whenever it is enabled), then every acknowledgement
/// awaited. The queue then holds `n` consecutive write requests — what a limit
/// on the worker's batch size, or any other count in its loop, is compared with.
/// No rotation (default chunk limits), so nothing but writes is queued.
fn long_queue_spec(prop: &str, n: usize, votes: bool) -> HistSpec {
    let mut syms = vec![];
    for _ in 0..n {
        syms.push(if votes { Sym::V } else { Sym::A });
        syms.push(Sym::F);
    }
    for _ in 0..n {
        syms.push(Sym::W);
    }
    let mut s = base_spec(prop, schedx::from_syms(&syms), Cfg::default());
    s.caller_first_only = true;
    s.fixed = true;
    s.max_executions = 1;
    s
}

fn has(syms: &[Sym], s: Sym) -> bool {
    syms.contains(&s)
}

/// The list of (history, configuration, oracle) work items of a schedx check.
pub fn sched_specs(prop: &str, tier: &str) -> Vec<HistSpec> {
    let thorough = tier == "thorough";
    let mut out = vec![];
    match prop {
        "C03" | "C05" => {
            for votes in [true, false] {
                let mut s = long_queue_spec(prop, if thorough { 1100 } else { 300 }, votes);
                s.crash = true;
                s.crash_final_only = true;
                s.o_c03 = prop == "C03";
                s.o_c05 = prop == "C05";
                out.push(s);
            }
            let alpha = [Sym::A, Sym::V, Sym::F, Sym::W, Sym::T, Sym::Pfirst, Sym::Alow, Sym::C, Sym::U];
            let max_len = if thorough { 5 } else { 3 };
            for len in 1..=max_len {
                // rotation at every write multiplies the schedules: short histories only
                let cfgs: Vec<Cfg> = if len <= 2 || (thorough && len <= 3) { vec![Cfg::records(2), Cfg::records(3)] } else { vec![Cfg::records(3)] };
                let keep = |syms: &[Sym], _ops: &[SOp]| -> bool {
                    // a trailing wait adds nothing; longer histories must contain a flush
                    if syms.last() == Some(&Sym::W) && len < 3 {
                        return false;
                    }
                    if len >= 4 && !has(syms, Sym::F) {
                        return false;
                    }
                    if len >= 5 && !(has(syms, Sym::W) && has(syms, Sym::A)) {
                        return false;
                    }
                    true
                };
                for h in schedx::histories(&alpha, len, &keep) {
                    for c in &cfgs {
                        let mut s = base_spec(prop, h.clone(), *c);
                        s.crash = true;
                        s.o_c03 = prop == "C03";
                        s.o_c05 = prop == "C05";
                        s.every_byte_newest = thorough;
                        s.nested = thorough || len <= 2;
                        out.push(s);
                    }
                }
            }
            // crash after an I/O fault: one EIO / EINTR / short write at any worker
            // write or fdatasync, then a crash at every state (the acknowledged
            // prefix must survive, whatever the failure did to the worker)
            {
                let mut fault_shapes: Vec<Vec<Sym>> = vec![vec![Sym::A, Sym::F], vec![Sym::A, Sym::F, Sym::F], vec![Sym::A, Sym::F, Sym::W, Sym::A]];
                if thorough {
                    fault_shapes.push(vec![Sym::A, Sym::A, Sym::F]);
                    fault_shapes.push(vec![Sym::A, Sym::Pfirst, Sym::F, Sym::F]);
                }
                let mut hs: Vec<Vec<SOp>> = fault_shapes.iter().map(|s| schedx::from_syms(s)).collect();
                if thorough {
                    for len in 1..=3 {
                        let keep = |syms: &[Sym], _ops: &[SOp]| -> bool { has(syms, Sym::F) };
                        hs.extend(schedx::histories(&alpha, len, &keep));
                    }
                }
                for h in hs {
                    for c in [Cfg::records(2), Cfg::records(3)] {
                        if !thorough && h.len() >= 4 && c.max_records == Some(2) {
                            continue;
                        }
                        let mut s = base_spec(prop, h.clone(), c);
                        s.fixed = !thorough;
                        s.crash = true;
                        s.o_c03 = prop == "C03";
                        s.o_c05 = prop == "C05";
                        s.max_faults = 1;
                        s.fault_policy = FaultPolicy::WorkerAll;
                        out.push(s);
                        if thorough && h.len() <= 3 {
                            let mut s2 = base_spec(prop, h.clone(), c);
                            s2.crash = true;
                            s2.o_c03 = prop == "C03";
                            s2.o_c05 = prop == "C05";
                            s2.max_faults = 2;
                            s2.fault_policy = FaultPolicy::WorkerSyncEio;
                            out.push(s2);
                        }
                    }
                }
            }
            // fixed longer shapes: flushes straddling rotations, acknowledged prefix then more writes
            let shapes: Vec<Vec<Sym>> = vec![
                vec![Sym::A, Sym::A, Sym::F, Sym::W, Sym::A, Sym::A],
                vec![Sym::A, Sym::F, Sym::A, Sym::F, Sym::W, Sym::W],
                vec![Sym::V, Sym::A, Sym::F, Sym::W, Sym::T, Sym::Alow, Sym::F],
                vec![Sym::A, Sym::A, Sym::Pfirst, Sym::F, Sym::W, Sym::A],
                vec![Sym::A, Sym::U, Sym::F, Sym::W, Sym::C, Sym::F],
                // flushes without callback interleaved with acknowledged ones
                vec![Sym::A, Sym::Fn, Sym::A, Sym::F, Sym::W],
                vec![Sym::A, Sym::F, Sym::A, Sym::Fn, Sym::F, Sym::W, Sym::W],
                vec![Sym::V, Sym::Fn, Sym::F, Sym::W],
            ];
            // one purge making two chunks obsolete at once (rotation at every write):
            // crashes between the unlinks of one removal request
            // an acknowledged prefix, then a purge whose flush also carries the chunk removal:
            // the removal must not overtake the write/sync of its own batch
            for c in [Cfg::records(2), Cfg::records(3)] {
                let mut s = base_spec(prop, schedx::from_syms(&[Sym::A, Sym::F, Sym::W, Sym::Pfirst, Sym::F]), c);
                s.fixed = true;
                s.crash = true;
                s.o_c03 = prop == "C03";
                s.o_c05 = prop == "C05";
                out.push(s);
            }
            for sh in [vec![Sym::A, Sym::Pfirst, Sym::F], vec![Sym::A, Sym::Pfirst, Sym::F, Sym::W]] {
                let mut s = base_spec(prop, schedx::from_syms(&sh), Cfg::records(2));
                s.fixed = true;
                s.crash = true;
                s.o_c03 = prop == "C03";
                s.o_c05 = prop == "C05";
                out.push(s);
            }
            for sh in shapes {
                let mut s = base_spec(prop, schedx::from_syms(&sh), Cfg::records(3));
                s.fixed = true;
                s.crash = true;
                s.o_c03 = prop == "C03";
                s.o_c05 = prop == "C05";
                out.push(s);
            }
        }
        "C04" => {
            for votes in [false, true] {
                let mut s = long_queue_spec(prop, if thorough { 1100 } else { 300 }, votes);
                s.o_c04 = true;
                out.push(s);
            }
            // two 17 MiB write requests and a small one queued before the worker runs
            // (one schedule): byte budgets of a batch
            {
                let mut s = base_spec(prop, schedx::from_syms(&[Sym::A, Sym::F, Sym::A17m, Sym::F, Sym::A17m, Sym::F, Sym::A, Sym::F, Sym::W, Sym::W, Sym::W, Sym::W]), Cfg::default());
                s.fixed = true;
                s.o_c04 = true;
                s.caller_first_only = true;
                s.max_executions = 1;
                out.push(s);
            }
            // a write request above 1 MiB queued behind a small one (and before one)
            for sh in [vec![Sym::A, Sym::F, Sym::Amega, Sym::F, Sym::W, Sym::W], vec![Sym::Amega, Sym::F, Sym::A, Sym::F, Sym::W, Sym::W]] {
                let mut s = base_spec(prop, schedx::from_syms(&sh), Cfg::default());
                s.fixed = true;
                s.o_c04 = true;
                out.push(s);
            }
            let alpha = [Sym::A, Sym::F, Sym::W, Sym::Abig, Sym::T, Sym::Pfirst];
            let max_len = if thorough { 5 } else { 4 };
            for len in 1..=max_len {
                let keep = |syms: &[Sym], _ops: &[SOp]| -> bool {
                    has(syms, Sym::F) && (has(syms, Sym::A) || has(syms, Sym::Abig)) && (len < 4 || syms.iter().filter(|s| **s == Sym::F).count() >= 2 || has(syms, Sym::W))
                };
                for h in schedx::histories(&alpha, len, &keep) {
                    let cfgs: Vec<Cfg> = if len <= 3 { vec![Cfg::records(2), Cfg::records(3)] } else { vec![Cfg::records(3)] };
                    for c in &cfgs {
                        // no fault: exactly-once, order, durability at every ack
                        let mut s0 = base_spec(prop, h.clone(), *c);
                        s0.o_c04 = true;
                        out.push(s0);
                        // faults of any kind (EIO, EINTR, short write) at any worker write/fdatasync
                        let mut s1 = base_spec(prop, h.clone(), *c);
                        s1.o_c04 = true;
                        s1.max_faults = if thorough && len <= 3 { 2 } else { 1 };
                        s1.fault_policy = FaultPolicy::WorkerAll;
                        if thorough || len <= 2 {
                            out.push(s1);
                        }
                        // repeated fdatasync failures (the same file can fail twice)
                        if thorough && len <= 4 {
                            let mut s2 = base_spec(prop, h.clone(), *c);
                            s2.o_c04 = true;
                            s2.max_faults = if len <= 3 { 3 } else { 2 };
                            s2.fault_policy = FaultPolicy::WorkerSyncEio;
                            out.push(s2);
                        }
                    }
                }
            }
            // quick tier: every pair of fdatasync failures on the shapes in which one
            // file can fail twice (once as the newest file, again as an older file)
            if !thorough {
                let shapes: Vec<Vec<Sym>> = vec![
                    vec![Sym::A, Sym::F, Sym::F],
                    vec![Sym::A, Sym::F, Sym::W, Sym::F],
                    vec![Sym::A, Sym::A, Sym::F, Sym::F],
                    vec![Sym::A, Sym::F, Sym::A, Sym::F],
                    vec![Sym::A, Sym::Fn, Sym::F],
                ];
                // a failed sync while two files are tracked leaves three tracked files at
                // the next flush (rotation at every write, one fdatasync failure)
                {
                    let mut s3 = base_spec(prop, schedx::from_syms(&[Sym::A, Sym::A, Sym::F]), Cfg::records(2));
                    s3.fixed = true;
                    s3.o_c04 = true;
                    s3.max_faults = 1;
                    s3.fault_policy = FaultPolicy::WorkerSyncEio;
                    out.push(s3);
                }
                for sh in shapes {
                    for c in [Cfg::records(2), Cfg::records(3)] {
                        // two rotations x two faults: thorough tier only
                        if c.max_records == Some(2) && sh.iter().filter(|x| **x == Sym::A).count() >= 2 {
                            continue;
                        }
                        let mut s2 = base_spec(prop, schedx::from_syms(&sh), c);
                        s2.fixed = true;
                        s2.o_c04 = true;
                        s2.max_faults = 2;
                        s2.fault_policy = FaultPolicy::WorkerSyncEio;
                        out.push(s2);
                    }
                }
            }
        }
        "C07" => {
            let alpha = [Sym::A, Sym::Aup, Sym::Alow, Sym::T, Sym::F, Sym::W, Sym::I, Sym::R, Sym::E, Sym::Pfirst];
            let caches: Vec<(Option<usize>, Option<usize>)> = vec![(Some(0), None), (Some(1), None), (None, Some(5)), (Some(2), Some(0))];
            let max_len = if thorough { 6 } else { 4 };
            for len in 2..=max_len {
                let keep = |syms: &[Sym], _ops: &[SOp]| -> bool {
                    syms.last() == Some(&Sym::R) && (has(syms, Sym::A) || has(syms, Sym::Aup)) && (len < 4 || has(syms, Sym::F))
                };
                for h in schedx::histories(&alpha, len, &keep) {
                    for (ci, (items, cap)) in caches.iter().enumerate() {
                        // all cache limits for short histories, two for longer ones
                        if len >= 4 && ci >= 1 && !thorough {
                            continue;
                        }
                        for rec in [2usize, 3] {
                            if rec == 2 && len > 3 {
                                continue;
                            }
                            let mut s = base_spec(prop, h.clone(), Cfg::records(rec).with_cache(*items, *cap));
                            s.o_c07 = true;
                            out.push(s);
                        }
                    }
                }
            }
            // the family that puts a re-appended entry below the eviction boundary
            let fam: Vec<Vec<Sym>> = vec![
                // a snapshot taken while entries are in the open chunk, iterated after
                // rotation, flush and further appends under cache pressure
                vec![Sym::A, Sym::Ks, Sym::A, Sym::A, Sym::F, Sym::W, Sym::A, Sym::Ki],
                vec![Sym::A, Sym::A, Sym::Ks, Sym::A, Sym::F, Sym::W, Sym::I, Sym::E, Sym::Ki],
                // the boundary must move BACK: a chunk closes with last (3,1), is synced;
                // after a truncation the next chunk closes with last (1,0), is synced; an
                // entry (2,1) appended then must stay pinned
                vec![Sym::A, Sym::Aup, Sym::F, Sym::W, Sym::T, Sym::V, Sym::F, Sym::W, Sym::Alow, Sym::R],
                vec![Sym::A, Sym::Aup, Sym::F, Sym::W, Sym::T, Sym::Alow, Sym::R],
                vec![Sym::A, Sym::Aup, Sym::A, Sym::F, Sym::W, Sym::T, Sym::T, Sym::Alow, Sym::R],
                vec![Sym::A, Sym::Aup, Sym::F, Sym::W, Sym::I, Sym::T, Sym::Alow, Sym::E, Sym::R],
                vec![Sym::A, Sym::A, Sym::A, Sym::F, Sym::W, Sym::I, Sym::E, Sym::R, Sym::A, Sym::R],
                // a closed, synced, evicted chunk holding two 40 000-byte entries: the
                // second one straddles every 64 KiB block boundary a reader might use
                vec![Sym::Ahuge, Sym::Ahuge, Sym::A, Sym::F, Sym::W, Sym::I, Sym::E, Sym::R],
                // the same with records above 64 KiB (70 000-byte entries)
                vec![Sym::Agiant, Sym::Agiant, Sym::A, Sym::F, Sym::W, Sym::I, Sym::E, Sym::R],
            ];
            if thorough {
                let alpha2 = [Sym::A, Sym::F, Sym::W, Sym::Ks, Sym::Ki, Sym::E, Sym::T, Sym::Pfirst];
                for len in 3..=6 {
                    let keep = |syms: &[Sym], _ops: &[SOp]| -> bool {
                        let ks = syms.iter().filter(|x| **x == Sym::Ks).count();
                        let ki = syms.iter().filter(|x| **x == Sym::Ki).count();
                        let pks = syms.iter().position(|x| *x == Sym::Ks);
                        ks == 1 && ki == 1 && syms.last() == Some(&Sym::Ki) && pks.map(|p| p >= 1 && p + 2 < syms.len()).unwrap_or(false) && has(syms, Sym::A)
                    };
                    for h in schedx::histories(&alpha2, len, &keep) {
                        for (items, cap) in [(Some(0usize), None), (Some(1), None), (None, Some(5usize))] {
                            let mut s = base_spec(prop, h.clone(), Cfg::records(3).with_cache(items, cap));
                            s.o_c07 = true;
                            out.push(s);
                        }
                    }
                }
            }
            // lock-window mode: the worker also parks inside its cache write-lock
            // section, so reads are scheduled while the lock is held
            let lw: Vec<Vec<Sym>> = if thorough {
                vec![
                    vec![Sym::A, Sym::F, Sym::R],
                    vec![Sym::A, Sym::A, Sym::R],
                    vec![Sym::A, Sym::A, Sym::F, Sym::R],
                    vec![Sym::A, Sym::A, Sym::A, Sym::R],
                    vec![Sym::A, Sym::F, Sym::A, Sym::R],
                    vec![Sym::A, Sym::F, Sym::W, Sym::A, Sym::F, Sym::R],
                ]
            } else {
                // a sync (flush or rotation) opens the window while a cached-only entry exists
                vec![vec![Sym::A, Sym::F, Sym::R], vec![Sym::A, Sym::A, Sym::A, Sym::R]]
            };
            for h in lw {
                let mut s = base_spec(prop, schedx::from_syms(&h), Cfg::records(3));
                s.fixed = true;
                s.o_c07 = true;
                s.lock_window = true;
                out.push(s);
            }
            for f in fam {
                for (ci, (items, cap)) in caches.iter().enumerate() {
                    // the nine-operation shape with two truncations is the most expensive
                    // one: quick tier under two of the four cache limits only
                    if !thorough && f.len() == 9 && f.iter().filter(|x| **x == Sym::T).count() == 2 && (ci == 0 || ci == 3) {
                        continue;
                    }
                    if !thorough && f.len() == 10 && ci != 0 {
                        continue;
                    }
                    let mut s = base_spec(prop, schedx::from_syms(&f), Cfg::records(3).with_cache(*items, *cap));
                    s.fixed = true;
                    s.o_c07 = true;
                    out.push(s);
                }
            }
        }
        "C15" => {
            let alpha = [Sym::A, Sym::Aup, Sym::T, Sym::Pfirst, Sym::F, Sym::W, Sym::Alow];
            let caches: Vec<(Option<usize>, Option<usize>)> = vec![(Some(0), None), (Some(1), None), (None, Some(5))];
            let max_len = if thorough { 5 } else { 3 };
            for len in 1..=max_len {
                let keep = |syms: &[Sym], _ops: &[SOp]| -> bool { has(syms, Sym::A) || has(syms, Sym::Aup) };
                for h in schedx::histories(&alpha, len, &keep) {
                    // the accessor check after every operation, then idle + drain + check
                    let mut ops = vec![];
                    for o in &h {
                        ops.push(o.clone());
                        ops.push(SOp::CacheCheck);
                    }
                    ops.push(SOp::WaitIdle);
                    ops.push(SOp::Drain);
                    ops.push(SOp::CacheCheck);
                    for (ci, (items, cap)) in caches.iter().enumerate() {
                        if len >= 3 && ci >= 1 && !thorough {
                            continue;
                        }
                        for rec in [2usize, 3] {
                            if rec == 2 && len > 2 && !thorough {
                                continue;
                            }
                            let mut s = base_spec(prop, ops.clone(), Cfg::records(rec).with_cache(*items, *cap));
                            s.o_c15 = true;
                            out.push(s);
                        }
                    }
                }
            }
        }
        "C08" => {
            let alpha = [Sym::A, Sym::Pfirst, Sym::F, Sym::W, Sym::Plast, Sym::Pbeyond, Sym::T, Sym::Alow, Sym::I];
            let max_len = if thorough { 5 } else { 3 };
            for len in 2..=max_len {
                let keep = |syms: &[Sym], _ops: &[SOp]| -> bool {
                    let purge_pos = syms.iter().position(|s| matches!(s, Sym::Pfirst | Sym::Plast | Sym::Pbeyond));
                    let Some(pp) = purge_pos else { return false };
                    // a flush after the purge makes the removal due
                    syms[pp..].contains(&Sym::F) && (len < 5 || has(syms, Sym::A))
                };
                let mut hs = schedx::histories(&alpha, len, &keep);
                if len == max_len {
                    // an older chunk that must be KEPT (closing last above the purge point)
                    // in front of later chunks that close with a smaller last
                    hs.push(schedx::from_syms(&[Sym::Aup, Sym::T, Sym::Pbeyond, Sym::F]));
                }
                if len == max_len && thorough {
                    // closed chunks whose closing `last` is not monotone (lower-term
                    // re-append after a truncation), then a purge between them
                    hs.push(schedx::from_syms(&[Sym::A, Sym::Aup, Sym::T, Sym::Alow, Sym::Plast, Sym::F]));
                    hs.push(schedx::from_syms(&[Sym::A, Sym::Aup, Sym::T, Sym::Alow, Sym::Plast, Sym::F, Sym::W, Sym::I]));
                }
                for h in hs {
                    let cfgs: Vec<Cfg> = if len <= 3 { vec![Cfg::records(2), Cfg::records(3)] } else { vec![Cfg::records(2)] };
                    for c in &cfgs {
                        let mut s = base_spec(prop, h.clone(), *c);
                        s.fixed = h.len() > len;
                        s.o_c08 = true;
                        s.crash = true;
                        s.o_c03 = true;
                        out.push(s);
                        let mut f = base_spec(prop, h.clone(), *c);
                        f.fixed = h.len() > len;
                        f.o_c08 = true;
                        f.max_faults = if thorough && len <= 3 { 2 } else { 1 };
                        f.fault_policy = FaultPolicy::WorkerEio;
                        // (the four-operation shape `Aup T Pbeyond F` rides along with len == 3 in
                        // the quick tier: crash oracle only there, faults in the thorough tier)
                        if thorough || len <= 2 || (len == 3 && h.len() == 3 && c.max_records == Some(2) && h.iter().filter(|o| matches!(o, SOp::Flush)).count() == 1) {
                            out.push(f);
                        }
                    }
                }
            }
        }
        _ => {}
    }
    // hand-picked shapes first (stable): a wall cap then cuts the enumerated tail
    out.sort_by_key(|s| !s.fixed);
    out
}

pub fn c14_specs(tier: &str) -> Vec<crate::c14::C14Spec> {
    let thorough = tier == "thorough";
    let alpha = [Sym::A, Sym::Pfirst, Sym::F, Sym::W];
    let mut out = vec![];
    // scale: one append of 70 (thorough also 140) entries under 2 records per chunk,
    // a purge that makes dozens of chunk files obsolete, flush, ack, drop — one
    // schedule (too long to explore); the whole second-instance script follows
    for n in if thorough { vec![70u64, 140] } else { vec![70] } {
        let entries: Vec<_> = (0..n).map(|i| ((1u64, i), crate::alphabet::payload((1, i), 0))).collect();
        let phase1 = vec![
            SOp::W(crate::model::Op::Append(entries)),
            SOp::W(crate::model::Op::Purge((1, n - 5))),
            SOp::Flush,
            SOp::WaitAck,
        ];
        out.push(crate::c14::C14Spec { prop: "C14".to_string(), phase1, cfg: Cfg::records(2), max_executions: 1, unwind_drop: false, worker_faults: false, caller_first_only: true });
    }
    let max_prefix = if thorough { 3 } else { 2 };
    for plen in 0..=max_prefix {
        // quick tier: of the length-2 prefixes only those with a purge (a chunk
        // removal is then pending behind the acknowledged flush)
        let keep = |syms: &[Sym], _: &[SOp]| thorough || plen < 2 || (has(syms, Sym::Pfirst) && has(syms, Sym::A));
        for prefix in schedx::histories(&alpha, plen, &keep) {
            for tail in 0..=2usize {
                // prefix ; F ; W... (every outstanding flush) ; [A ...]
                let mut syms_ops = prefix.clone();
                syms_ops.push(SOp::Flush);
                let flushes = syms_ops.iter().filter(|o| matches!(o, SOp::Flush)).count();
                let waited = syms_ops.iter().filter(|o| matches!(o, SOp::WaitAck)).count();
                for _ in waited..flushes {
                    syms_ops.push(SOp::WaitAck);
                }
                // unflushed appends after the last acknowledgement
                let mut m = crate::model::RefLog::new();
                for o in &syms_ops {
                    if let SOp::W(w) = o {
                        m.apply(w);
                    }
                }
                for _ in 0..tail {
                    let op = schedx::instantiate(Sym::A, &m, 0, 0).unwrap();
                    if let SOp::W(w) = &op {
                        m.apply(w);
                    }
                    syms_ops.push(op);
                }
                for c in [Cfg::records(2), Cfg::records(3)] {

                    // two rotations pending at drop after a non-empty prefix: thorough tier
                    if c.max_records == Some(2) && tail == 2 && plen >= 1 && !thorough {
                        continue;
                    }
                    if plen >= 2 && !thorough && (c.max_records == Some(2) || tail >= 1) {
                        continue;
                    }
                    out.push(crate::c14::C14Spec { prop: "C14".to_string(), phase1: syms_ops.clone(), cfg: c, max_executions: 300_000, unwind_drop: false, worker_faults: false, caller_first_only: false });
                    // a worker that fails (EIO at a write, fdatasync or unlink): quick tier for
                    // the shapes with work pending behind the last acknowledgement
                    let pending_removal0 = prefix.iter().any(|o| matches!(o, SOp::W(crate::model::Op::Purge(_))));
                    if thorough || (pending_removal0 && tail == 0 && plen <= 2) || (plen == 0 && tail == 1 && c.max_records == Some(2)) {
                        out.push(crate::c14::C14Spec { prop: "C14".to_string(), phase1: syms_ops.clone(), cfg: c, max_executions: 300_000, unwind_drop: false, worker_faults: true, caller_first_only: false });
                    }
                    // the same, dropped by unwinding: quick tier for the purge prefixes
                    // (a removal is pending behind the acknowledged flush) and the
                    // empty prefix with a rotated tail pending
                    let pending_removal = prefix.iter().any(|o| matches!(o, SOp::W(crate::model::Op::Purge(_))));
                    if thorough || (pending_removal && tail == 0) || (plen == 0 && tail == 2 && c.max_records == Some(3)) {
                        out.push(crate::c14::C14Spec { prop: "C14".to_string(), phase1: syms_ops.clone(), cfg: c, max_executions: 300_000, unwind_drop: true, worker_faults: false, caller_first_only: false });
                    }
                }
            }
        }
    }
    out
}

pub fn reader_specs(tier: &str) -> Vec<crate::readers::ReaderSpec> {
    let thorough = tier == "thorough";
    let shapes: Vec<Vec<Sym>> = if thorough {
        vec![
            vec![Sym::A, Sym::A, Sym::F],
            vec![Sym::A, Sym::A, Sym::A, Sym::F],
            vec![Sym::A, Sym::A, Sym::F, Sym::A],
            vec![Sym::A, Sym::A, Sym::Pfirst, Sym::F],
            vec![Sym::A, Sym::Aup, Sym::T, Sym::Alow, Sym::F],
            vec![Sym::A, Sym::A, Sym::F, Sym::A, Sym::A, Sym::F],
            vec![Sym::Ahuge, Sym::Ahuge, Sym::F],
            vec![Sym::Agiant, Sym::Agiant, Sym::F],
        ]
    } else {
        // (second shape: two entries above 64 KiB in one closed chunk, read from disk
        // by both readers at once)
        // (first: one entry above 64 KiB and a small one in a closed chunk, both readers
        // read the large one from disk at once)
        vec![vec![Sym::Agiant, Sym::A, Sym::F], vec![Sym::A, Sym::A, Sym::F]]
    };
    let mut out = vec![];
    for (si, sh) in shapes.into_iter().enumerate() {
        for (items, cap) in [(Some(0usize), None), (Some(1), None), (None, Some(5usize))] {
            if !thorough && (items == Some(1) || (si == 0 && cap.is_some())) {
                continue;
            }
            out.push(crate::readers::ReaderSpec {
                prop: "C07".to_string(),
                hist: schedx::from_syms(&sh),
                cfg: Cfg::records(3).with_cache(items, cap),
                max_executions: if thorough { 400_000 } else { 60_000 },
                // the shapes with entries of 40 000 / 70 000 bytes cost tens of
                // milliseconds per execution: bounded passes only in the quick tier
                bounded_only: !thorough && sh.iter().any(|o| matches!(o, Sym::Ahuge | Sym::Agiant)),
            });
        }
    }
    out
}

fn reader_shard(tier: &str, shard: usize, of: usize) -> i32 {
    let specs = reader_specs(tier);
    let mut stats = schedx::SchedStats::default();
    let mut vios: Vec<crate::report::Violation> = vec![];
    let mut machinery: Option<String> = None;
    let mut samples: Vec<Value> = vec![];
    let budget_s: u64 = std::env::var("VX_SHARD_WALL_S").ok().and_then(|s| s.parse().ok()).unwrap_or(cap_secs(if tier == "thorough" { 1500 } else { 45 }));
    let deadline = std::time::Instant::now() + Duration::from_secs(budget_s);
    let mut skipped = 0u64;
    for (i, s) in specs.iter().enumerate() {
        if i % of != shard {
            continue;
        }
        if std::time::Instant::now() > deadline {
            skipped += 1;
            continue;
        }
        let before = stats.executions;
        if let Err(schedx::Machinery(m)) = crate::readers::explore(s, &mut vios, &mut stats, deadline) {
            machinery = Some(m);
            break;
        }
        if std::env::var("VX_SHARD_VERBOSE").is_ok() {
            eprintln!("ITEM {} execs={} cfg={} hist=[{}]", i, stats.executions - before, s.cfg.short(), schedx::shist_short(&s.hist));
        }
        if samples.len() < 2 {
            samples.push(json!({"history_then_2_readers_and_drainer": schedx::shist_short(&s.hist), "cfg": s.cfg.short(), "executions": stats.executions - before}));
        }
        let mut seen = std::collections::BTreeSet::new();
        vios.retain(|v| seen.insert(v.key.clone()));
    }
    let out = json!({
        "stats": stats.to_json(),
        "vios": vios.iter().map(|v| json!({"prop": v.prop, "key": v.key, "what": v.what, "replay": v.replay})).collect::<Vec<_>>(),
        "machinery": machinery,
        "samples": samples,
        "skipped_histories": skipped,
        "work_items": specs.len(),
    });
    println!("{}", out);
    0
}

pub fn sched_shard(prop: &str, tier: &str, shard: usize, of: usize) -> i32 {
    if prop == "C14" {
        return c14_shard(tier, shard, of);
    }
    if prop == "C07R" {
        return reader_shard(tier, shard, of);
    }
    let specs = sched_specs(prop, tier);
    let mut stats = schedx::SchedStats::default();
    let mut vios: Vec<crate::report::Violation> = vec![];
    let mut machinery: Option<String> = None;
    let mut samples: Vec<Value> = vec![];
    let budget_s: u64 = std::env::var("VX_SHARD_WALL_S").ok().and_then(|s| s.parse().ok()).unwrap_or(cap_secs(if tier == "thorough" { 3000 } else { 45 }));
    let deadline = std::time::Instant::now() + Duration::from_secs(budget_s);
    let mut skipped = 0u64;
    for (i, s) in specs.iter().enumerate() {
        if i % of != shard {
            continue;
        }
        if std::time::Instant::now() > deadline {
            skipped += 1;
            continue;
        }
        let before = stats.executions;
        match schedx::explore_history(s, &mut vios, &mut stats, deadline) {
            Ok(()) => {}
            Err(schedx::Machinery(m)) => {
                machinery = Some(m);
                break;
            }
        }
        if std::env::var("VX_SHARD_VERBOSE").is_ok() {
            eprintln!("ITEM {} execs={} faults={:?}/{} cfg={} hist=[{}]", i, stats.executions - before, s.fault_policy, s.max_faults, s.cfg.short(), schedx::shist_short(&s.hist));
        }
        if samples.len() < 3 {
            samples.push(json!({"history": schedx::shist_short(&s.hist), "cfg": s.cfg.short(), "executions": stats.executions - before}));
        }
        // keep the report small: one representative per key and shard
        let mut seen = std::collections::BTreeSet::new();
        vios.retain(|v| seen.insert((v.key.clone(), v.what.len() / 64)));
    }
    let out = json!({
        "stats": stats.to_json(),
        "vios": vios.iter().map(|v| json!({"prop": v.prop, "key": v.key, "what": v.what, "replay": v.replay})).collect::<Vec<_>>(),
        "machinery": machinery,
        "samples": samples,
        "skipped_histories": skipped,
        "work_items": specs.len(),
    });
    println!("{}", out);
    0
}

fn c14_shard(tier: &str, shard: usize, of: usize) -> i32 {
    let specs = c14_specs(tier);
    let mut stats = schedx::SchedStats::default();
    let mut vios: Vec<crate::report::Violation> = vec![];
    let mut machinery: Option<String> = None;
    let mut samples: Vec<Value> = vec![];
    let budget_s: u64 = std::env::var("VX_SHARD_WALL_S").ok().and_then(|s| s.parse().ok()).unwrap_or(cap_secs(if tier == "thorough" { 3000 } else { 60 }));
    let deadline = std::time::Instant::now() + Duration::from_secs(budget_s);
    let mut skipped = 0u64;
    for (i, s) in specs.iter().enumerate() {
        if i % of != shard {
            continue;
        }
        if std::time::Instant::now() > deadline {
            skipped += 1;
            continue;
        }
        let before = stats.executions;
        if let Err(schedx::Machinery(m)) = crate::c14::explore(s, &mut vios, &mut stats, deadline) {
            machinery = Some(m);
            break;
        }
        if stats.tainted {
            skipped += specs.iter().enumerate().filter(|(j, _)| j % of == shard && *j > i).count() as u64;
            break;
        }
        // deviation at the join: the wait for the worker may give up (timer lands first)
        if !s.worker_faults && !s.caller_first_only {
            if let Err(schedx::Machinery(m)) = crate::c14::impatient_probe(s, &mut vios, &mut stats) {
                machinery = Some(m);
                break;
            }
        }
        if std::env::var("VX_SHARD_VERBOSE").is_ok() {
            eprintln!("ITEM {} execs={} cfg={} phase1=[{}]", i, stats.executions - before, s.cfg.short(), schedx::shist_short(&s.phase1));
        }
        if samples.len() < 3 {
            samples.push(json!({"first_instance": schedx::shist_short(&s.phase1), "cfg": s.cfg.short(), "executions": stats.executions - before}));
        }
        let mut seen = std::collections::BTreeSet::new();
        vios.retain(|v| seen.insert(v.key.clone()));
    }
    let out = json!({
        "stats": stats.to_json(),
        "vios": vios.iter().map(|v| json!({"prop": v.prop, "key": v.key, "what": v.what, "replay": v.replay})).collect::<Vec<_>>(),
        "machinery": machinery,
        "samples": samples,
        "skipped_histories": skipped,
        "work_items": specs.len(),
    });
    println!("{}", out);
    0
}

struct SchedCollected {
    stats: schedx::SchedStats,
    samples: Vec<Value>,
    skipped: u64,
    items: u64,
    machinery: Option<String>,
}

fn sched_collect(rep: &Reporter, prop: &str, tier: &str) -> SchedCollected {
    let n = std::env::var("VX_SHARDS")
        .ok()
        .and_then(|s| s.parse().ok())
        .unwrap_or_else(|| std::thread::available_parallelism().map(|n| n.get()).unwrap_or(8));
    let exe = std::env::current_exe().unwrap();
    let children: Vec<std::process::Child> = (0..n)
        .map(|i| {
            std::process::Command::new(&exe)
                .args(["schedx-shard", prop, tier, &i.to_string(), &n.to_string()])
                .stdout(std::process::Stdio::piped())
                .spawn()
                .expect("spawn shard")
        })
        .collect();
    let mut c = SchedCollected { stats: schedx::SchedStats::default(), samples: vec![], skipped: 0, items: 0, machinery: None };
    for ch in children {
        let o = ch.wait_with_output().expect("shard output");
        let text = String::from_utf8_lossy(&o.stdout);
        let line = text.lines().last().unwrap_or("");
        match serde_json::from_str::<Value>(line) {
            Ok(v) => {
                c.stats.add_json(&v["stats"]);
                for x in v["vios"].as_array().cloned().unwrap_or_default() {
                    rep.report(crate::report::Violation {
                        prop: x["prop"].as_str().unwrap_or(prop).to_string(),
                        key: x["key"].as_str().unwrap_or("").to_string(),
                        what: x["what"].as_str().unwrap_or("").to_string(),
                        replay: x["replay"].clone(),
                    });
                }
                if let Some(m) = v["machinery"].as_str() {
                    c.machinery = Some(m.to_string());
                }
                for s in v["samples"].as_array().cloned().unwrap_or_default() {
                    if c.samples.len() < 5 {
                        c.samples.push(s);
                    }
                }
                c.skipped += v["skipped_histories"].as_u64().unwrap_or(0);
                c.items = v["work_items"].as_u64().unwrap_or(0);
            }
            Err(_) => c.machinery = Some(format!("shard died or produced no result (status {:?})", o.status)),
        }
    }
    c
}

const SCHED_EXPLANATION: &str = "stateless DFS over all schedules of the real caller thread + real FlushWorker thread under a controlled scheduler (gates at every channel/cache/ack access and every file-system call; sleep-set reduction), for every history of the listed alphabet/length; where enabled, fault variants at worker write/fdatasync (deviation-bounded) and, at every scheduler state, every post-crash image of the crash model recovered by the real RaftLog::open. 'states' = scheduler states visited, 'transitions' = scheduler steps executed, 'traces_validated_against_impl' = complete executions of the real code.";

fn sched_assumptions() -> Vec<String> {
    vec![
        "scheduling points: verif-hooks gates + interposed libc file-system calls; sequential consistency; no unsafe in the crate (checked by selftest)".into(),
        "crash model: process crash keeps completed calls (+ any prefix of a write in flight); power loss cuts each file anywhere at or above its last successfully synced length or zero-fills it from a record boundary; create/unlink/truncate durable on return".into(),
        "types fixed to VT; histories bounded in length over a state-relative alphabet".into(),
    ]
}

fn run_sched_check(prop: &str, tier: &str) -> i32 {
    let rep = Reporter::new(prop, tier);
    let c = sched_collect(&rep, prop, tier);
    let mut samples = c.samples.clone();
    if samples.is_empty() {
        samples.push(json!("(no history explored)"));
    }
    if !c.stats.sample_schedule.is_empty() {
        samples.push(json!({"one_explored_schedule_thread_colon_transition": c.stats.sample_schedule}));
    }
    let stats = &c.stats;
    let cov = json!({
        "states": (stats.distinct_states.max(stats.scheduler_states)).max(1),
        "transitions": stats.steps.max(1),
        "traces_validated_against_impl": stats.executions,
        "samples": samples,
        "exhaustive": stats.caps_hit == 0 && c.skipped == 0 && stats.image_cap_hit == 0,
        "work_items_history_x_config": c.items,
        "histories_skipped_by_wall_cap": c.skipped,
        "detail": stats.to_json(),
        "explanation": SCHED_EXPLANATION,
    });
    let code = rep.finish("model_checking", cov, sched_assumptions());
    if let Some(m) = c.machinery {
        println!("MACHINERY-FAILURE: {}", m);
        return 2;
    }
    code
}
