//! `schedx` — exhaustive schedule exploration of the real store (caller thread
//! + real FlushWorker) under the controlled scheduler, with fault injection
//! and crash-image enumeration. Serves C03 C04 C05 C07 C08 C15.

use std::collections::BTreeMap;
use std::collections::HashMap;
use std::collections::HashSet;
use std::sync::Arc;
use std::sync::Mutex;
use std::time::Duration;
use std::time::Instant;

use raft_log::api::raft_log_writer::RaftLogWriter;
use serde_json::json;
use serde_json::Value;

use crate::alphabet::payload;
use crate::enc;
use crate::enc::MRec;
use crate::imagex;
use crate::imagex::Opened;
use crate::interpose::Fault;
use crate::interpose::FsKind;
use crate::model::next_index;
use crate::model::Journal;
use crate::model::Op;
use crate::model::Placed;
use crate::model::RefLog;
use crate::report::Fnv;
use crate::report::Violation;
use crate::sched;
use crate::sched::Dfs;
use crate::sched::Event;
use crate::sched::ExecResult;
use crate::sched::FaultPolicy;
use crate::sched::OpGate;
use crate::sched::ThreadKind;
use crate::seqx::cfg_to_json;
use crate::seqx::model_step;
use crate::shadow;
use crate::shadow::ShadowFs;
use crate::sut::chunk_name;
use crate::sut::open_store;
use crate::sut::Cfg;
use crate::sut::ScratchDir;
use crate::vt::AckEvent;
use crate::vt::AckLog;
use crate::vt::LogId;

#[derive(Clone, Debug, PartialEq, Eq, Hash)]
pub enum SOp {
    W(Op),
    Flush,
    /// flush(None): synced, but nobody is told
    FlushNoCb,
    /// wait for the oldest flush not yet waited for
    WaitAck,
    WaitIdle,
    /// read everything (ranges + snapshot iteration) and compare with the model
    Read,
    Drain,
    CacheCheck,
    /// take a snapshot (dump_data()) and keep it
    SnapTake,
    /// iterate the snapshot taken earlier: must yield the entries live when it was taken
    SnapIter,
}

impl SOp {
    pub fn short(&self) -> String {
        match self {
            SOp::W(o) => o.short(),
            SOp::Flush => "F".into(),
            SOp::FlushNoCb => "Fn".into(),
            SOp::WaitAck => "W".into(),
            SOp::WaitIdle => "I".into(),
            SOp::Read => "R".into(),
            SOp::Drain => "E".into(),
            SOp::CacheCheck => "S".into(),
            SOp::SnapTake => "Ks".into(),
            SOp::SnapIter => "Ki".into(),
        }
    }
}

pub fn shist_short(h: &[SOp]) -> String {
    h.iter().map(|o| o.short()).collect::<Vec<_>>().join("; ")
}

/// Static analysis of a history on the reference model.
pub struct Plan {
    /// model before op i (index i); models[len] = final
    pub models: Vec<RefLog>,
    pub accepted: Vec<bool>,
    /// all journal records of accepted writes in order, with placement and
    /// the index of the op that wrote them
    pub records: Vec<(MRec, Placed, usize)>,
    /// model after j records (j = 0..=records.len())
    pub prefix_states: Vec<RefLog>,
    /// number of records journalled before op i
    pub recs_before_op: Vec<usize>,
    /// op indices of the flushes (ack id = position)
    pub flush_ops: Vec<usize>,
    /// chunk heads: (chunk start, head record, number of records journalled when it was created)
    pub heads: Vec<(u64, MRec, usize)>,
    pub journal_after: Vec<Journal>,
    /// chunk start -> index of the purge op that made it obsolete
    pub obsoleted_by: BTreeMap<u64, usize>,
    /// which flush each WaitAck op waits for
    pub wait_targets: BTreeMap<usize, u64>,
}

pub fn plan(hist: &[SOp], cfg: &Cfg) -> Plan {
    let mut m = RefLog::new();
    let mut j = Journal::new(cfg.limits());
    let mut p = Plan {
        models: vec![],
        accepted: vec![],
        records: vec![],
        prefix_states: vec![m.clone()],
        recs_before_op: vec![],
        flush_ops: vec![],
        heads: vec![(0, j.chunks[0].recs[0].clone(), 0)],
        journal_after: vec![],
        obsoleted_by: BTreeMap::new(),
        wait_targets: BTreeMap::new(),
    };
    let mut waited = 0u64;
    for (i, op) in hist.iter().enumerate() {
        p.models.push(m.clone());
        p.recs_before_op.push(p.records.len());
        let mut ok = true;
        match op {
            SOp::W(w) => {
                let chunks_before: Vec<u64> = j.chunks.iter().map(|c| c.start).collect();
                let pending_before = j.pending_removal.len();
                let mut m2 = m.clone();
                let a = m2.apply(w);
                let (acc, placed) = model_step(&mut m, &mut j, w);
                ok = acc;
                for (r, pl) in a.recs.iter().zip(placed.iter()) {
                    p.records.push((r.clone(), *pl, i));
                    let mut ps = p.prefix_states.last().unwrap().clone();
                    ps.replay(r);
                    p.prefix_states.push(ps);
                }
                for c in &j.chunks {
                    if !chunks_before.contains(&c.start) && !p.heads.iter().any(|h| h.0 == c.start) {
                        p.heads.push((c.start, c.recs[0].clone(), p.records.len()));
                    }
                }
                for s in &j.pending_removal[pending_before.min(j.pending_removal.len())..] {
                    p.obsoleted_by.insert(*s, i);
                }
            }
            SOp::Flush => {
                p.flush_ops.push(i);
                j.on_flush_done();
            }
            SOp::FlushNoCb => {
                j.on_flush_done();
            }
            SOp::WaitAck => {
                p.wait_targets.insert(i, waited);
                waited += 1;
            }
            _ => {}
        }
        p.accepted.push(ok);
        p.journal_after.push(j.clone());
    }
    p.models.push(m);
    p.recs_before_op.push(p.records.len());
    p
}

#[derive(Clone)]
pub struct HistSpec {
    pub prop: String,
    pub hist: Vec<SOp>,
    pub cfg: Cfg,
    pub crash: bool,
    pub every_byte_newest: bool,
    pub max_faults: usize,
    pub fault_policy: FaultPolicy,
    /// oracle switches
    pub o_c03: bool,
    pub o_c04: bool,
    pub o_c05: bool,
    pub o_c07: bool,
    pub o_c08: bool,
    pub o_c15: bool,
    pub max_executions: u64,
    /// also park the worker inside its cache write-lock section (lock-window mode)
    pub lock_window: bool,
    /// also enumerate crashes during the recovery of every crash image
    pub nested: bool,
    /// hand-picked shape (not part of an enumerated family): explored first, so
    /// that a wall cap on a slow machine cuts the enumerated tail, not these
    pub fixed: bool,
    /// explore ONE schedule only: the caller runs whenever it can (the worker
    /// lags as far as possible, the queue gets as long as the history allows)
    pub caller_first_only: bool,
    /// evaluate the crash oracle in the final state only (long histories)
    pub crash_final_only: bool,
}

fn svio(spec: &HistSpec, key: &str, what: String, extra: Value) -> Violation {
    Violation {
        prop: spec.prop.clone(),
        key: key.to_string(),
        what: format!("{} | history: [{}] | cfg: {}", what, shist_short(&spec.hist), spec.cfg.short()),
        replay: json!({
            "engine": "schedx",
            "history": spec.hist.iter().map(sop_to_json).collect::<Vec<_>>(),
            "history_text": shist_short(&spec.hist),
            "cfg": cfg_to_json(&spec.cfg),
            "max_faults": spec.max_faults,
            "fault_policy": format!("{:?}", spec.fault_policy),
            "lock_window": spec.lock_window,
            "caller_first_only": spec.caller_first_only,
            "extra": extra,
        }),
    }
}

pub fn sop_to_json(o: &SOp) -> Value {
    match o {
        SOp::W(w) => crate::seqx::op_to_json(w),
        SOp::Flush => json!({"op":"F"}),
        SOp::FlushNoCb => json!({"op":"Fn"}),
        SOp::WaitAck => json!({"op":"W"}),
        SOp::WaitIdle => json!({"op":"I"}),
        SOp::Read => json!({"op":"R"}),
        SOp::Drain => json!({"op":"E"}),
        SOp::CacheCheck => json!({"op":"S"}),
        SOp::SnapTake => json!({"op":"Ks"}),
        SOp::SnapIter => json!({"op":"Ki"}),
    }
}

pub fn sop_from_json(v: &Value) -> SOp {
    match v["op"].as_str().unwrap_or("") {
        "F" => SOp::Flush,
        "Fn" => SOp::FlushNoCb,
        "W" => SOp::WaitAck,
        "I" => SOp::WaitIdle,
        "R" => SOp::Read,
        "E" => SOp::Drain,
        "S" => SOp::CacheCheck,
        "Ks" => SOp::SnapTake,
        "Ki" => SOp::SnapIter,
        _ => SOp::W(crate::seqx::op_from_json(v)),
    }
}

/// What the caller thread reports back.
#[derive(Default)]
pub struct CallerOut {
    pub op_results: Vec<(usize, bool, String)>,
    pub open_err: Option<String>,
}

struct StoreGuard {
    rl: Option<raft_log::RaftLog<crate::vt::VT>>,
    inst: usize,
}

impl Drop for StoreGuard {
    fn drop(&mut self) {
        self.rl = None;
        sched::mark_sender_dropped(self.inst);
    }
}

fn caller_body(spec: HistSpec, pl: Arc<Plan>, dir: String, acks: Arc<AckLog>, out: Arc<Mutex<CallerOut>>, faults_possible: bool) {
    sched::op_gate("open", OpGate::Always, sched::R_ALL);
    sched::set_extra_bits(sched::R_ALL);
    let rl = match open_store(&dir, &spec.cfg) {
        Ok(rl) => rl,
        Err(e) => {
            out.lock().unwrap().open_err = Some(e);
            sched::set_extra_bits(0);
            return;
        }
    };
    sched::set_extra_bits(0);
    let inst = sched::current_inst();
    let mut g = StoreGuard { rl: Some(rl), inst };
    let mut next_flush = 0u64;
    let mut boundary_before_last_op: Option<LogId> = None;
    let mut snapshot: Option<(raft_log::DumpRaftLog<crate::vt::VT>, Vec<(LogId, String)>)> = None;
    for (i, op) in spec.hist.iter().enumerate() {
        let gatek = match op {
            SOp::WaitAck => OpGate::WaitAck(pl.wait_targets[&i]),
            SOp::WaitIdle => OpGate::WaitIdle(inst),
            _ => OpGate::Always,
        };
        let bits = match op {
            SOp::WaitAck => sched::R_ACK,
            SOp::WaitIdle => sched::R_IDLE,
            _ => 0,
        };
        sched::op_gate(&op.short(), gatek, bits);
        if matches!(op, SOp::Read | SOp::SnapIter | SOp::SnapTake) {
            sched::set_extra_bits(sched::R_CACHE);
        }
        sched::push_event(Event::OpStart { tid: 0, idx: i });
        let rl = g.rl.as_mut().unwrap();
        if let SOp::W(_) = op {
            // same segment as the write's cache access: the boundary in force
            boundary_before_last_op = rl.verif_cache_resident().1;
        }
        let (ok, info) = match op {
            SOp::W(w) => {
                let r = std::panic::catch_unwind(std::panic::AssertUnwindSafe(|| match w {
                    Op::Vote(v) => rl.save_vote(*v).map(|_| ()),
                    Op::Append(es) => rl.append(es.clone()).map(|_| ()),
                    Op::Truncate(x) => rl.truncate(*x).map(|_| ()),
                    Op::Purge(id) => rl.purge(*id).map(|_| ()),
                    Op::Commit(id) => rl.commit(*id).map(|_| ()),
                    Op::UserData(u) => rl.save_user_data(u.clone()).map(|_| ()),
                    _ => Ok(()),
                }));
                match r {
                    Ok(Ok(())) => (true, String::new()),
                    Ok(Err(e)) => (false, format!("Err: {}", e)),
                    Err(p) => (false, format!("PANIC: {}", crate::sut::panic_msg(p))),
                }
            }
            SOp::Flush => {
                let cb = acks.cb(next_flush);
                next_flush += 1;
                match rl.flush(Some(cb)) {
                    Ok(()) => (true, String::new()),
                    Err(e) => (false, format!("Err: {}", e)),
                }
            }
            SOp::FlushNoCb => match rl.flush(None) {
                Ok(()) => (true, String::new()),
                Err(e) => (false, format!("Err: {}", e)),
            },
            SOp::WaitAck | SOp::WaitIdle => (true, String::new()),
            SOp::Drain => {
                rl.drain_cache_evictable();
                (true, String::new())
            }
            SOp::SnapTake => {
                snapshot = Some((rl.dump_data(), pl.models[i].all()));
                (true, String::new())
            }
            SOp::SnapIter => match snapshot.as_mut() {
                None => (true, String::new()),
                Some((snap, want)) => {
                    let r = std::panic::catch_unwind(std::panic::AssertUnwindSafe(|| {
                        let mut v = vec![];
                        for item in snap.iter() {
                            match item {
                                Ok(x) => v.push(x),
                                Err(e) => return (v, Some(format!("Err({:?}): {}", e.kind(), e))),
                            }
                        }
                        (v, None)
                    }));
                    let (got, err) = match r {
                        Ok(x) => x,
                        Err(p) => (vec![], Some(format!("PANIC: {}", crate::sut::panic_msg(p)))),
                    };
                    if err.is_some() || got != *want {
                        let what = format!("iterating the snapshot taken earlier gives {:?} then {:?}; entries live when it was taken: {:?}", got, err, want);
                        if spec.o_c07 && !faults_possible {
                            let hist_ops: Vec<Op> = spec.hist[..i].iter().filter_map(|o| if let SOp::W(w) = o { Some(w.clone()) } else { None }).collect();
                            let f3 = crate::seqx::reappended_below_highwater(&hist_ops);
                            let at = if err.is_some() { want.get(got.len()).map(|e| e.0) } else { None };
                            let panicked = err.as_ref().map(|e| e.contains("PANIC")).unwrap_or(false);
                            let key = match at {
                                // (a panic is never the recorded finding: F3 is an error result)
                                _ if panicked => "snapshot-iteration-panics",
                                Some(id) if f3.contains(&id) => "F3:read-error-on-entry-reappended-below-truncated-id",
                                _ => "snapshot-iteration-fails-or-differs",
                            };
                            sched::push_violation(svio(&spec, key, format!("op {}: {}", i, what), json!({"op_index": i})));
                        }
                        (false, what)
                    } else {
                        (true, String::new())
                    }
                }
            },
            SOp::CacheCheck => {
                let (resident, boundary, items, size) = rl.verif_cache_resident();
                let st = rl.stat();
                let n = resident.len() as u64;
                let sz: u64 = resident.iter().map(|x| x.1).sum();
                let mut bad: Option<(String, String)> = None;
                if items != n || size != sz || st.payload_cache_item_count != n || st.payload_cache_size != sz {
                    bad = Some((
                        "cache-accounting".to_string(),
                        format!("op {}: counters items {} size {} (stat {} / {}) but the resident set has {} entries / {} bytes", i, items, size, st.payload_cache_item_count, st.payload_cache_size, n, sz),
                    ));
                }
                // right after an accepted append: only entries above the boundary
                // that was in force when the append ran may exceed the limits
                if bad.is_none() && i > 0 {
                    if let (SOp::W(Op::Append(_)), true) = (&spec.hist[i - 1], pl.accepted[i - 1]) {
                        if n > st.payload_cache_max_item || sz > st.payload_cache_capacity {
                            for (id, _) in &resident {
                                if Some(*id) <= boundary_before_last_op {
                                    bad = Some((
                                        "cache-over-limit-unpinned".to_string(),
                                        format!(
                                            "op {}: after the append the cache is over its limit (items {}/{} size {}/{}) while resident {:?} is at or below the boundary {:?} that was in force at the append",
                                            i, n, st.payload_cache_max_item, sz, st.payload_cache_capacity, id, boundary_before_last_op
                                        ),
                                    ));
                                    break;
                                }
                            }
                        }
                    }
                }
                // after idle + drain nothing at or below the boundary is resident
                if bad.is_none() && i >= 2 && matches!(spec.hist[i - 1], SOp::Drain) && matches!(spec.hist[i - 2], SOp::WaitIdle) {
                    for (id, _) in &resident {
                        if Some(*id) <= boundary {
                            bad = Some((
                                "cache-drain".to_string(),
                                format!("op {}: after idle + drain, resident {:?} is at or below the boundary {:?}", i, id, boundary),
                            ));
                            break;
                        }
                    }
                }
                match bad {
                    Some((key, what)) => {
                        if spec.o_c15 {
                            sched::push_violation(svio(&spec, &key, what.clone(), json!({"op_index": i})));
                        }
                        (false, what)
                    }
                    None => (true, String::new()),
                }
            }
            SOp::Read => {
                let m = &pl.models[i];
                let want = m.all();
                // (what failed, the entry it failed at)
                let mut bad: Option<(String, Option<LogId>)> = None;
                let collect = |it: &mut dyn Iterator<Item = Result<(LogId, String), std::io::Error>>| -> (Vec<(LogId, String)>, Option<String>) {
                    let mut v = vec![];
                    for item in it {
                        match item {
                            Ok(x) => v.push(x),
                            Err(e) => return (v, Some(format!("Err({:?}): {}", e.kind(), e))),
                        }
                    }
                    (v, None)
                };
                let r = std::panic::catch_unwind(std::panic::AssertUnwindSafe(|| collect(&mut rl.read(0, u64::MAX))));
                match r {
                    Err(p) => bad = Some((format!("read(0,MAX) panicked: {}", crate::sut::panic_msg(p)), None)),
                    Ok((got, err)) => {
                        if err.is_some() || got != want {
                            let at = want.get(got.len().min(want.len().saturating_sub(1))).map(|e| e.0);
                            let at = if err.is_some() { want.get(got.len()).map(|e| e.0) } else { at };
                            bad = Some((format!("read(0,MAX) = {:?} then {:?}, model {:?}", got, err, want), at));
                        }
                    }
                }
                if bad.is_none() {
                    let r = std::panic::catch_unwind(std::panic::AssertUnwindSafe(|| {
                        let mut d = rl.dump_data();
                        let mut it = d.iter();
                        collect(&mut it)
                    }));
                    match r {
                        Err(p) => bad = Some((format!("dump_data().iter() panicked: {}", crate::sut::panic_msg(p)), None)),
                        Ok((got, err)) => {
                            if err.is_some() || got != want {
                                let at = if err.is_some() { want.get(got.len()).map(|e| e.0) } else { None };
                                bad = Some((format!("dump_data().iter() = {:?} then {:?}, model {:?}", got, err, want), at));
                            }
                        }
                    }
                }
                match bad {
                    None => (true, String::new()),
                    Some((b, at)) => {
                        if spec.o_c07 && !faults_possible {
                            // classify by mechanism: is the entry the read failed at one that was
                            // re-appended with a log id <= an id journalled before it (F3)?
                            let hist_ops: Vec<Op> = spec.hist[..i]
                                .iter()
                                .filter_map(|o| if let SOp::W(w) = o { Some(w.clone()) } else { None })
                                .collect();
                            let f3 = crate::seqx::reappended_below_highwater(&hist_ops);
                            // F3 only if the boundary in force is the one the protocol
                            // prescribes for the worker's progress (replayed from its hook
                            // events) and it covers the entry the read failed at
                            let actual = rl.verif_cache_resident().1;
                            let b_values: Vec<Option<LogId>> = pl
                                .heads
                                .iter()
                                .map(|h| if let MRec::State(st) = &h.1 { st.last } else { None })
                                .collect();
                            let expected = sched::with_inner(|inner| {
                                let mut known = 1usize;
                                let mut exp: Option<LogId> = None;
                                for e in &inner.trace {
                                    if let Event::Hook { point, a, .. } = e {
                                        if *point == "worker.nonflush" && *a == raft_log::verif_hooks::REQ_APPEND_FILE {
                                            known += 1;
                                        } else if *point == "worker.evictable" {
                                            exp = b_values.get(known - 1).copied().flatten();
                                        }
                                    }
                                }
                                exp
                            })
                            .flatten();
                            let key = match at {
                                // (a panic is never the recorded finding: F3 is an error result)
                                _ if b.contains("PANIC") || b.contains("panicked") => "read-panics",
                                Some(id) if f3.contains(&id) && actual == expected && Some(id) <= actual => {
                                    "F3:read-error-on-entry-reappended-below-truncated-id"
                                }
                                _ => "read-fails-or-differs",
                            };
                            sched::push_violation(svio(
                                &spec,
                                key,
                                format!("op {}: {} (boundary in force {:?}, protocol boundary {:?})", i, b, actual, expected),
                                json!({"op_index": i, "failed_at": format!("{:?}", at)}),
                            ));
                        }
                        (false, b)
                    }
                }
            }
        };
        sched::set_extra_bits(0);
        sched::push_event(Event::OpEnd { tid: 0, idx: i, ok, info: info.clone() });
        out.lock().unwrap().op_results.push((i, ok, info));
    }
    // drop: releases the directory lock and disconnects the channel (in the
    // segment after its last gate); it touches nothing else that is shared
    sched::op_gate("drop", OpGate::Always, sched::R_CHAN | sched::R_LOCK);
    sched::set_extra_bits(sched::R_CHAN | sched::R_LOCK);
    drop(g.rl.take());
    sched::mark_sender_dropped(inst);
    sched::set_extra_bits(0);
}

#[derive(Default, Clone, Debug)]
pub struct SchedStats {
    pub histories: u64,
    pub executions: u64,
    pub complete_executions: u64,
    pub sleep_blocked: u64,
    pub steps: u64,
    pub scheduler_states: u64,
    pub distinct_states: u64,
    pub crash_images: u64,
    pub distinct_images: u64,
    pub recoveries: u64,
    pub faults_injected: u64,
    pub acks_checked: u64,
    pub unlinks_checked: u64,
    pub reads_checked: u64,
    pub caps_hit: u64,
    pub degraded: u64,
    pub image_cap_hit: u64,
    pub nested_recoveries_traced: u64,
    pub nested_images: u64,
    pub outcomes: BTreeMap<String, u64>,
    pub max_schedule_len: usize,
    /// one explored schedule written out (thread:transition per step)
    pub sample_schedule: Vec<String>,
    /// a managed thread was left behind (hang verdict): the process must not
    /// run further executions
    pub tainted: bool,
}

impl SchedStats {
    pub fn to_json(&self) -> Value {
        json!({
            "histories": self.histories, "executions": self.executions, "complete_executions": self.complete_executions,
            "sleep_blocked": self.sleep_blocked, "steps": self.steps, "scheduler_states": self.scheduler_states,
            "distinct_states": self.distinct_states, "crash_images": self.crash_images, "distinct_images": self.distinct_images,
            "recoveries": self.recoveries, "faults_injected": self.faults_injected, "acks_checked": self.acks_checked,
            "unlinks_checked": self.unlinks_checked, "reads_checked": self.reads_checked, "caps_hit": self.caps_hit,
            "degraded": self.degraded, "image_cap_hit": self.image_cap_hit, "outcomes": self.outcomes,
            "recoveries_traced_for_second_crash": self.nested_recoveries_traced, "second_level_crash_images": self.nested_images,
            "max_schedule_len": self.max_schedule_len,
            "sample_schedule": self.sample_schedule,
        })
    }
    pub fn add_json(&mut self, v: &Value) {
        let g = |k: &str| v[k].as_u64().unwrap_or(0);
        self.histories += g("histories");
        self.executions += g("executions");
        self.complete_executions += g("complete_executions");
        self.sleep_blocked += g("sleep_blocked");
        self.steps += g("steps");
        self.scheduler_states += g("scheduler_states");
        self.distinct_states += g("distinct_states");
        self.crash_images += g("crash_images");
        self.distinct_images += g("distinct_images");
        self.recoveries += g("recoveries");
        self.faults_injected += g("faults_injected");
        self.acks_checked += g("acks_checked");
        self.unlinks_checked += g("unlinks_checked");
        self.reads_checked += g("reads_checked");
        self.caps_hit += g("caps_hit");
        self.degraded += g("degraded");
        self.image_cap_hit += g("image_cap_hit");
        self.nested_recoveries_traced += g("recoveries_traced_for_second_crash");
        self.nested_images += g("second_level_crash_images");
        self.max_schedule_len = self.max_schedule_len.max(g("max_schedule_len") as usize);
        if self.sample_schedule.len() < v["sample_schedule"].as_array().map(|a| a.len()).unwrap_or(0) {
            self.sample_schedule = v["sample_schedule"].as_array().unwrap().iter().filter_map(|x| x.as_str().map(|s| s.to_string())).collect();
        }
        if let Some(o) = v["outcomes"].as_object() {
            for (k, n) in o {
                *self.outcomes.entry(k.clone()).or_insert(0) += n.as_u64().unwrap_or(0);
            }
        }
    }
    pub fn outcome_add(&mut self, k: &str) {
        *self.outcomes.entry(k.to_string()).or_insert(0) += 1;
    }
    fn outcome(&mut self, k: &str) {
        *self.outcomes.entry(k.to_string()).or_insert(0) += 1;
    }
}

#[derive(Clone)]
pub struct Recovered {
    pub opened: Opened,
    pub usable: Result<(), String>,
    /// usability under default chunk limits and a zero-size cache
    pub usable_tiny: Result<(), String>,
}

pub struct HistCtx {
    pub seen_states: HashSet<u64>,
    pub images: HashMap<u64, Recovered>,
    pub nested_done: HashSet<u64>,
}

pub struct Machinery(pub String);

fn trace_signature(r: &ExecResult) -> u64 {
    let mut h = Fnv::new();
    for e in &r.trace {
        match e {
            Event::Step { tid, label, .. } => {
                h.add_u64(*tid as u64);
                h.add_str(label);
            }
            Event::Fs { tid, call, ret, errno } => {
                h.add_u64(*tid as u64);
                let ret_n = if matches!(call.kind, FsKind::Create | FsKind::Open) && *ret >= 0 { 0 } else { *ret };
                h.add_str(&format!("{:?}{}{}{}{}", call.kind, call.name, call.arg, call.len, ret_n));
                h.add_u64(*errno as u64 & if *ret < 0 { u64::MAX } else { 0 });
                h.add(&call.data);
            }
            Event::Ack(a) => h.add_str(&format!("{:?}", a)),
            Event::OpEnd { idx, ok, .. } => {
                h.add_u64(*idx as u64);
                h.add_u64(*ok as u64);
            }
            Event::Hook { tid, point, a } => {
                h.add_u64(*tid as u64);
                h.add_str(point);
                h.add_u64(*a);
            }
            _ => {}
        }
    }
    h.add_u64(r.trace.iter().filter(|e| !matches!(e, Event::Note(_))).count() as u64);
    h.0
}

pub fn trace_lines(r: &ExecResult) -> Vec<String> {
    let mut v = vec![];
    for e in &r.trace {
        match e {
            Event::Step { tid, label, fault } => v.push(format!("step t{} {} {:?}", tid, label, fault)),
            Event::Fs { tid, call, ret, errno } => v.push(format!(
                "fs t{} {:?} {} arg={} len={} ret={} errno={} data={:x}",
                tid,
                call.kind,
                call.name,
                call.arg,
                call.len,
                if matches!(call.kind, FsKind::Create | FsKind::Open) && *ret >= 0 { 0 } else { *ret },
                if *ret < 0 { *errno } else { 0 },
                crate::report::hash_bytes(&call.data)
            )),
            Event::Ack(a) => v.push(format!("ack {:?}", a)),
            Event::OpEnd { idx, ok, info, .. } => v.push(format!("opend {} {} {}", idx, ok, info)),
            Event::OpStart { idx, .. } => v.push(format!("opstart {}", idx)),
            Event::Hook { tid, point, a } => v.push(format!("hook t{} {} {}", tid, point, a)),
            Event::Note(n) => v.push(format!("note {}", n)),
        }
    }
    v
}

fn run_once(spec: &HistSpec, pl: &Arc<Plan>, chooser: &mut dyn sched::Chooser, faults_possible: bool) -> (ExecResult, CallerOut, Arc<AckLog>, ScratchDir) {
    let dir = ScratchDir::new();
    let acks = AckLog::new();
    let out = Arc::new(Mutex::new(CallerOut::default()));
    let body: sched::ThreadBody = {
        let spec = spec.clone();
        let pl = pl.clone();
        let d = dir.path.clone();
        let acks = acks.clone();
        let out = out.clone();
        Box::new(move || caller_body(spec, pl, d, acks, out, faults_possible))
    };
    let res = sched::run_execution(vec![(ThreadKind::Caller, body)], chooser);
    let co = std::mem::take(&mut *out.lock().unwrap());
    (res, co, acks, dir)
}

/// Explores every schedule (and fault placement) of one history.
pub fn explore_history(spec: &HistSpec, vios: &mut Vec<Violation>, stats: &mut SchedStats, wall_deadline: Instant) -> Result<(), Machinery> {
    let pl = Arc::new(plan(&spec.hist, &spec.cfg));
    let mut ctx = HistCtx { seen_states: HashSet::new(), images: HashMap::new(), nested_done: HashSet::new() };
    let mut dfs = if spec.caller_first_only {
        // forced mode with an empty schedule: always the first enabled transition,
        // i.e. the lowest thread id — the caller whenever it is enabled
        Dfs::replaying(vec![], 0, FaultPolicy::None)
    } else {
        Dfs::new(spec.max_faults, spec.fault_policy)
    };
    let faults_possible = spec.max_faults > 0 && spec.fault_policy != FaultPolicy::None;
    stats.histories += 1;
    sched::set_lock_window(spec.lock_window);
    // MiB-scale payloads: no thread is ever blocked in the kernel in these shapes
    // (no lock-window, no join gate in the middle), so a long-running step is just slow
    let big = spec.hist.iter().any(|o| matches!(o, SOp::W(Op::Append(es)) if es.iter().any(|e| e.1.len() > (4 << 20))));
    sched::set_patient(big);
    let mut first = true;
    loop {
        dfs.begin_execution();
        let (res, co, acks, dir) = run_once(spec, &pl, &mut dfs, faults_possible);
        if let Some(h) = &res.hung {
            return Err(Machinery(format!("a managed thread did not park within the timeout: {} | history [{}]", h, shist_short(&spec.hist))));
        }
        if !res.unmanaged_fs.is_empty() {
            return Err(Machinery(format!(
                "a thread the scheduler does not control (started by the code under test) changed the scratch directory: {:?}; its interleavings cannot be explored | history [{}]",
                res.unmanaged_fs,
                shist_short(&spec.hist)
            )));
        }
        if let Some(d) = &dfs.divergence {
            if spec.lock_window {
                // lock-window runs depend on a kernel-blocked thread being noticed in
                // time; on an overloaded machine a replay can diverge. That ends the
                // exploration of this history (reported as a cap), it is no verdict.
                stats.caps_hit += 1;
                stats.outcome("lock-window-exploration-aborted-by-timing");
                break;
            }
            return Err(Machinery(format!("nondeterminism while replaying a schedule prefix: {} | history [{}]", d, shist_short(&spec.hist))));
        }
        if first {
            // determinism obligation: the first schedule, replayed, must give the identical trace
            let sig = trace_signature(&res);
            let mut rp = sched::Replay { schedule: dfs.schedule(), divergence: None, max_faults: spec.max_faults, fault_policy: spec.fault_policy };
            let (res2, _, _, _) = run_once(spec, &pl, &mut rp, faults_possible);
            if spec.lock_window && (rp.divergence.is_some() || trace_signature(&res2) != sig) {
                stats.caps_hit += 1;
                stats.outcome("lock-window-exploration-aborted-by-timing");
                break;
            }
            if rp.divergence.is_some() || trace_signature(&res2) != sig {
                let a = trace_lines(&res);
                let b = trace_lines(&res2);
                let k = a.iter().zip(b.iter()).position(|(x, y)| x != y).unwrap_or(a.len().min(b.len()));
                let _ = std::fs::write(
                    format!("/dev/shm/vx-divergence-{}.txt", std::process::id()),
                    format!("FIRST\n{}\n\nREPLAY\n{}\n", a.join("\n"), b.join("\n")),
                );
                return Err(Machinery(format!(
                    "replaying the first schedule did not reproduce the trace ({:?}); first difference at event {}: {:?} vs {:?} (lengths {} / {}) | history [{}]",
                    rp.divergence,
                    k,
                    a.get(k),
                    b.get(k),
                    a.len(),
                    b.len(),
                    shist_short(&spec.hist)
                )));
            }
            first = false;
            let sch: Vec<String> = dfs.schedule().iter().map(|(t, l)| format!("t{}:{}", t, l)).collect();
            if sch.len() > stats.sample_schedule.len() && sch.len() <= 60 {
                stats.sample_schedule = sch;
            }
        }
        stats.executions += 1;
        stats.steps += res.steps as u64;
        if res.degraded {
            stats.degraded += 1;
        }
        analyze(spec, &pl, &res, &co, &acks, &dir, &dfs, &mut ctx, vios, stats, faults_possible);
        drop(dir);
        if let Some(d) = &res.deadlock {
            vios.push(svio(
                spec,
                "deadlock",
                format!("no enabled thread while some are unfinished: {}", d),
                json!({"schedule": schedule_json(&dfs)}),
            ));
            // threads of this execution are stuck for good; stop exploring this history
            break;
        }
        if !dfs.next_branch() {
            break;
        }
        if dfs.stats.executions >= spec.max_executions || Instant::now() > wall_deadline {
            stats.caps_hit += 1;
            break;
        }
    }
    stats.complete_executions += dfs.stats.complete;
    stats.sleep_blocked += dfs.stats.sleep_blocked;
    stats.faults_injected += dfs.stats.faults_injected;
    stats.max_schedule_len = stats.max_schedule_len.max(dfs.stats.max_steps);
    stats.distinct_states += ctx.seen_states.len() as u64;
    stats.distinct_images += ctx.images.len() as u64;
    sched::set_patient(false);
    Ok(())
}

fn schedule_json(dfs: &Dfs) -> Value {
    json!(dfs.schedule().iter().map(|(t, l)| format!("{}:{}", t, l)).collect::<Vec<_>>())
}

fn entries_of(m: &RefLog) -> Vec<(LogId, String)> {
    m.all()
}

#[allow(clippy::too_many_arguments)]
fn analyze(
    spec: &HistSpec,
    pl: &Plan,
    res: &ExecResult,
    co: &CallerOut,
    _acks: &Arc<AckLog>,
    _dir: &ScratchDir,
    dfs: &Dfs,
    ctx: &mut HistCtx,
    vios: &mut Vec<Violation>,
    stats: &mut SchedStats,
    faults_possible: bool,
) {
    for v in &res.violations {
        let mut v = v.clone();
        if let Some(o) = v.replay.as_object_mut() {
            o.insert("schedule".into(), schedule_json(dfs));
        }
        vios.push(v);
    }
    let faults_in_run = res.trace.iter().any(|e| matches!(e, Event::Step { fault, .. } if *fault != Fault::None));
    let worker_failed = res.worker_failed.iter().any(|x| *x);

    // op results vs the model (no faults only)
    if !faults_in_run && !worker_failed {
        if let Some(e) = &co.open_err {
            vios.push(svio(spec, "open-fresh-failed", format!("opening a fresh directory failed: {}", e), json!({})));
        }
        for (i, ok, info) in &co.op_results {
            if let SOp::W(_) | SOp::Flush | SOp::FlushNoCb = &spec.hist[*i] {
                if *ok != pl.accepted[*i] {
                    vios.push(svio(
                        spec,
                        "op-result-differs",
                        format!("op {} ({}) returned ok={} ({}), model says {}", i, spec.hist[*i].short(), ok, info, pl.accepted[*i]),
                        json!({"schedule": schedule_json(dfs)}),
                    ));
                }
            }
            if matches!(spec.hist[*i], SOp::Read) {
                stats.reads_checked += 1;
            }
        }
    }

    let mut fs = ShadowFs::default();
    let mut acked_a = 0usize;
    let mut step_no = 0usize;
    let mut ops_done = 0usize;
    let mut op_in_flight = false;
    let mut sent: BTreeMap<u64, u32> = BTreeMap::new();
    let mut dropped: BTreeMap<u64, u32> = BTreeMap::new();
    let mut last_sent: Option<u64> = None;
    let mut failed_syncs: Vec<String> = vec![];
    let mut any_sync_failed = false;

    for ev in &res.trace {
        match ev {
            Event::Step { .. } => {
                stats.scheduler_states += 1;
                if spec.crash && !spec.crash_final_only {
                    let pend = res.pendings.get(step_no);
                    crash_oracle(spec, pl, &fs, acked_a, pend, ctx, vios, stats, dfs, step_no);
                }
                step_no += 1;
            }
            Event::OpStart { .. } => op_in_flight = true,
            Event::OpEnd { .. } => {
                op_in_flight = false;
                ops_done += 1;
            }
            Event::Fs { call, ret, .. } => {
                if matches!(call.kind, FsKind::Fdatasync | FsKind::Fsync) && *ret != 0 {
                    failed_syncs.push(call.name.clone());
                    any_sync_failed = true;
                }
                if call.kind == FsKind::Unlink && *ret == 0 && spec.o_c08 && call.name.ends_with(".wal") {
                    stats.unlinks_checked += 1;
                    unlink_oracle(spec, pl, &fs, &call.name, ops_done, op_in_flight, any_sync_failed, ctx, vios, stats, dfs);
                }
                fs.apply(call, *ret);
            }
            Event::Ack(a) => match a {
                AckEvent::Sent { id, ok, .. } => {
                    *sent.entry(*id).or_insert(0) += 1;
                    if let Some(l) = last_sent {
                        if *id <= l && spec.o_c04 {
                            vios.push(svio(
                                spec,
                                "ack-order",
                                format!("callback {} invoked after callback {}", id, l),
                                json!({"schedule": schedule_json(dfs)}),
                            ));
                        }
                    }
                    last_sent = Some(*id);
                    if *ok {
                        if let Some(fo) = pl.flush_ops.get(*id as usize) {
                            let nrec = pl.recs_before_op[*fo];
                            acked_a = acked_a.max(nrec);
                            if spec.o_c04 {
                                stats.acks_checked += 1;
                                ack_oracle(spec, pl, &fs, *id, nrec, &failed_syncs, vios, dfs);
                            }
                        }
                    }
                }
                AckEvent::Dropped { id } => {
                    *dropped.entry(*id).or_insert(0) += 1;
                }
            },
            _ => {}
        }
    }
    // final state (everything drained, worker exited)
    if spec.crash {
        crash_oracle(spec, pl, &fs, acked_a, None, ctx, vios, stats, dfs, step_no);
    }
    if spec.o_c04 {
        for (id, n) in &sent {
            if *n > 1 {
                vios.push(svio(spec, "ack-twice", format!("callback {} invoked {} times", id, n), json!({"schedule": schedule_json(dfs)})));
            }
        }
        if !faults_in_run && !worker_failed && co.open_err.is_none() {
            for id in 0..pl.flush_ops.len() as u64 {
                let s = sent.get(&id).copied().unwrap_or(0);
                if s != 1 {
                    vios.push(svio(
                        spec,
                        "ack-missing",
                        format!("no I/O error occurred but callback {} was invoked {} times (dropped unsent {} times)", id, s, dropped.get(&id).copied().unwrap_or(0)),
                        json!({"schedule": schedule_json(dfs)}),
                    ));
                }
            }
        }
    }
    // C08 liveness: in the final state every obsolete closed chunk is gone
    if spec.o_c08 && !faults_in_run && !worker_failed && co.open_err.is_none() {
        for (q, op) in spec.hist.iter().enumerate() {
            let SOp::W(Op::Purge(upto)) = op else { continue };
            if pl.models[q].st.purged >= Some(*upto) {
                continue; // not effective
            }
            // a later flush makes the purge's removals due
            let Some(fq) = spec.hist.iter().enumerate().position(|(k, o)| k > q && matches!(o, SOp::Flush | SOp::FlushNoCb)) else { continue };
            let j = &pl.journal_after[fq];
            // closed chunks at the time of that flush = all but the newest of (pending removal + retained)
            let mut starts: Vec<u64> = j.files();
            starts.extend(j.removed.iter().copied());
            starts.sort();
            starts.dedup();
            let newest = *starts.last().unwrap();
            let mut all_prev_obsolete = true;
            for s in starts {
                if s == newest {
                    break;
                }
                // all Append records stored in chunk `s` have ids <= upto ?
                let obsolete = pl.records.iter().filter(|(_, p, _)| p.chunk_start == s).all(|(r, _, _)| match r {
                    MRec::Append(id, _) => id <= upto,
                    _ => true,
                });
                // chunk must have been closed by the time of the flush
                let closed_then = pl.heads.iter().any(|h| h.0 > s && h.2 <= pl.recs_before_op[fq]);
                if !(obsolete && all_prev_obsolete && closed_then) {
                    all_prev_obsolete = false;
                    continue;
                }
                if fs.files.contains_key(&chunk_name(s)) {
                    vios.push(svio(
                        spec,
                        "obsolete-chunk-not-removed",
                        format!("purge {:?} was flushed and the worker is idle, but chunk {} (nothing above the purge point) still exists", upto, chunk_name(s)),
                        json!({"schedule": schedule_json(dfs)}),
                    ));
                }
            }
        }
    }
    let _ = faults_possible;
}

fn expected_bytes_check(fs: &ShadowFs, file: &str, off: usize, bytes: &[u8]) -> Result<(), String> {
    let Some(f) = fs.files.get(file) else { return Ok(()) }; // deleted: C08's business
    let end = off + bytes.len();
    if f.content.len() < end || f.content[off..end] != *bytes {
        return Err(format!("bytes [{}, {}) of {} are not (correctly) written (file length {})", off, end, file, f.content.len()));
    }
    if f.durable < end {
        return Err(format!("bytes [{}, {}) of {} were written but no successful sync of that file followed (durable length {})", off, end, file, f.durable));
    }
    Ok(())
}

#[allow(clippy::too_many_arguments)]
fn ack_oracle(spec: &HistSpec, pl: &Plan, fs: &ShadowFs, id: u64, nrec: usize, failed_syncs: &[String], vios: &mut Vec<Violation>, dfs: &Dfs) {
    let mut problems: Vec<(String, String)> = vec![];
    for (r, p, _) in &pl.records[..nrec] {
        let file = chunk_name(p.chunk_start);
        if let Err(e) = expected_bytes_check(fs, &file, (p.offset - p.chunk_start) as usize, &enc::encode(r)) {
            problems.push((file, format!("record {}: {}", r.short(), e)));
        }
    }
    for (start, head, at) in &pl.heads {
        if *at <= nrec {
            let file = chunk_name(*start);
            if let Err(e) = expected_bytes_check(fs, &file, 0, &enc::encode(head)) {
                problems.push((file, format!("head snapshot: {}", e)));
            }
        }
    }
    if let Some((file, what)) = problems.first() {
        let key = if failed_syncs.contains(file) { "F7:ack-ok-after-failed-sync-of-a-file-never-synced-again" } else { "ack-ok-without-durability" };
        vios.push(svio(
            spec,
            key,
            format!("flush {} acknowledged Ok, but {} ({} uncovered ranges)", id, what, problems.len()),
            json!({"schedule": schedule_json(dfs), "flush": id}),
        ));
    }
}

fn recover(spec: &HistSpec, files: &[(String, Vec<u8>)], ctx: &mut HistCtx, stats: &mut SchedStats, usability: bool) -> Recovered {
    let h = shadow::image_hash(files);
    if let Some(r) = ctx.images.get(&h) {
        return r.clone();
    }
    stats.recoveries += 1;
    let (run, usable) = imagex::open_image(files, &spec.cfg, usability);
    let mut usable_res: Result<(), String> = usable.map(|_| ());
    if usability && usable_res.is_ok() {
        if let Opened::Ok { .. } = run.opened {
            // second restart after the usability writes
            let (run2, _) = imagex::open_image(&run.files_after, &spec.cfg, false);
            match run2.opened {
                Opened::Ok { .. } => {}
                other => usable_res = Err(format!("restart after recovery + writes failed: {:?}", other)),
            }
        }
    }
    // C05 "stays usable ... with consistent results" does not fix the recovering
    // side's configuration: recover the same image once more under larger chunk
    // limits and a zero-size payload cache (the last chunk is then re-opened
    // for appends and every read goes through the cache-miss path)
    let mut usable_tiny: Result<(), String> = Ok(());
    if usability && usable_res.is_ok() {
        if let Opened::Ok { .. } = run.opened {
            let tiny = Cfg::default().with_cache(Some(0), Some(0));
            let (run_t, usable_t) = imagex::open_image(files, &tiny, true);
            match (&run_t.opened, usable_t) {
                (Opened::Ok { .. }, Ok(_)) => {}
                (Opened::Ok { .. }, Err(e)) => usable_tiny = Err(e),
                (other, _) => usable_tiny = Err(format!("open under the other configuration: {:?}", other)),
            }
        }
    }
    let r = Recovered { opened: run.opened, usable: usable_res, usable_tiny };
    ctx.images.insert(h, r.clone());
    r
}

/// `last` of the state denoted by all chunk files before the newest one that
/// holds at least one complete record (decoded with the reference decoder).
fn protocol_boundary_after_recovery(files: &[(String, Vec<u8>)]) -> Option<LogId> {
    let mut v: Vec<(u64, &Vec<u8>)> = vec![];
    for (n, b) in files {
        if !n.ends_with(".wal") {
            continue;
        }
        let digits: String = n.chars().filter(|c| c.is_ascii_digit()).collect();
        if let Ok(off) = digits.parse::<u64>() {
            v.push((off, b));
        }
    }
    v.sort();
    // drop record-less newest chunks
    while let Some((_, b)) = v.last() {
        if shadow::boundaries(b).len() <= 1 {
            v.pop();
        } else {
            break;
        }
    }
    v.pop(); // the chunk that is re-opened / followed by the new open chunk
    let mut m = RefLog::new();
    for (_, b) in v {
        let mut off = 0usize;
        while off < b.len() {
            match crate::codecx::decode(&b[off..]) {
                crate::codecx::Dec::Ok { rec, consumed, .. } if consumed > 0 => {
                    m.replay(&rec);
                    off += consumed;
                }
                _ => break,
            }
        }
    }
    m.st.last
}

/// F5 mechanism, computed from the image alone: some chunk file ends (in
/// complete records) before the offset its successor starts at, i.e. the
/// successor was created by a rotation whose old tail never reached the disk.
fn image_has_rotation_gap(files: &[(String, Vec<u8>)], pl: &Plan) -> bool {
    let mut v: Vec<(u64, usize)> = vec![];
    for (n, b) in files {
        if !n.ends_with(".wal") {
            continue;
        }
        let digits: String = n.chars().filter(|c| c.is_ascii_digit()).collect();
        let Ok(off) = digits.parse::<u64>() else { continue };
        let bounds = shadow::boundaries(b);
        v.push((off, *bounds.last().unwrap()));
    }
    v.sort();
    // F5 is about a chunk whose own TAIL is missing: the bytes between the end
    // of its complete records and its successor's offset belong to that same
    // chunk. If a whole chunk file is missing in between (a chunk of the
    // predicted journal starts inside the hole) it is a different defect.
    // (start of the chunk before the hole, end of its complete records, successor's offset)
    let gaps: Vec<(u64, u64, u64)> =
        v.windows(2).filter(|w| w[0].0 + (w[0].1 as u64) < w[1].0).map(|w| (w[0].0, w[0].0 + w[0].1 as u64, w[1].0)).collect();
    !gaps.is_empty() && gaps.iter().all(|(p0, e, s)| !pl.heads.iter().any(|h| h.0 > *p0 && h.0 >= *e && h.0 < *s))
}

#[allow(clippy::too_many_arguments)]
fn crash_oracle(
    spec: &HistSpec,
    pl: &Plan,
    fs: &ShadowFs,
    acked_a: usize,
    pend: Option<&Vec<(usize, sched::Pending)>>,
    ctx: &mut HistCtx,
    vios: &mut Vec<Violation>,
    stats: &mut SchedStats,
    dfs: &Dfs,
    step_no: usize,
) {
    // pending writes (calls about to run): a crash may land inside them
    let mut pending_writes: Vec<(String, usize, Vec<u8>)> = vec![];
    if let Some(p) = pend {
        for (_, pd) in p {
            if let Some(c) = &pd.call {
                if c.kind == FsKind::Write {
                    pending_writes.push((c.name.clone(), c.arg.max(0) as usize, c.data.clone()));
                }
            }
        }
    }
    let mut sh = Fnv::new();
    sh.add_u64(fs.hash());
    sh.add_u64(acked_a as u64);
    for (n, o, d) in &pending_writes {
        sh.add_str(n);
        sh.add_u64(*o as u64);
        sh.add(d);
    }
    if !ctx.seen_states.insert(sh.0) {
        return;
    }
    let newest = fs.files.keys().filter(|k| k.ends_with(".wal")).next_back().cloned();
    let mut per_file: Vec<(String, Vec<Vec<u8>>)> = vec![];
    for (name, f) in &fs.files {
        if !name.ends_with(".wal") {
            continue;
        }
        let mut full = f.content.clone();
        for (n, o, d) in &pending_writes {
            if n == name && *o == full.len() {
                full.extend_from_slice(d);
            }
        }
        let every = spec.every_byte_newest && Some(name) == newest.as_ref();
        per_file.push((name.clone(), shadow::file_variants(&full, f.durable, every)));
    }
    let (images, capped) = if spec.every_byte_newest {
        // thorough: the full cross product over files
        shadow::cross(&per_file, 3000)
    } else {
        // quick: every variant of each file, combined with every other file
        // either complete or cut back to its durable length
        let mut imgs: Vec<Vec<(String, Vec<u8>)>> = vec![];
        let mut seen_img: HashSet<u64> = HashSet::new();
        for (fi, (_, vars)) in per_file.iter().enumerate() {
            let others: Vec<(String, Vec<Vec<u8>>)> = per_file
                .iter()
                .enumerate()
                .filter(|(k, _)| *k != fi)
                .map(|(_, (n, v))| {
                    let mut two = vec![v.iter().max_by_key(|x| x.len()).cloned().unwrap_or_default()];
                    if let Some(f) = fs.files.get(n) {
                        let d = f.content[..f.durable.min(f.content.len())].to_vec();
                        if !two.contains(&d) {
                            two.push(d);
                        }
                    }
                    (n.clone(), two)
                })
                .collect();
            let (base, _) = shadow::cross(&others, 64);
            for b in base {
                for v in vars {
                    let mut img = b.clone();
                    img.push((per_file[fi].0.clone(), v.clone()));
                    img.sort();
                    if seen_img.insert(shadow::image_hash(&img)) {
                        imgs.push(img);
                    }
                }
            }
        }
        if per_file.is_empty() {
            imgs.push(vec![]);
        }
        (imgs, false)
    };
    if capped {
        stats.image_cap_hit += 1;
    }
    for img in images {
        stats.crash_images += 1;
        judge_image(spec, pl, &img, acked_a, ctx, vios, stats, dfs, step_no, "");
        // crashes during recovery itself: second-level images
        if spec.nested {
            let h = shadow::image_hash(&img);
            if ctx.nested_done.insert(h) {
                nested_crash(spec, pl, &img, acked_a, ctx, vios, stats, dfs, step_no);
            }
        }
    }
}

/// One post-crash image: recover it with the real store and apply the C03/C05 oracles.
#[allow(clippy::too_many_arguments)]
fn judge_image(
    spec: &HistSpec,
    pl: &Plan,
    img: &Vec<(String, Vec<u8>)>,
    acked_a: usize,
    ctx: &mut HistCtx,
    vios: &mut Vec<Violation>,
    stats: &mut SchedStats,
    dfs: &Dfs,
    step_no: usize,
    level: &str,
) {
        let rec = recover(spec, img, ctx, stats, spec.o_c05);
        let describe = |img: &Vec<(String, Vec<u8>)>| -> String {
            img.iter().map(|(n, b)| format!("{}:{}", n, b.len())).collect::<Vec<_>>().join(",")
        };
        match &rec.opened {
            Opened::Ok { state, entries } => {
                stats.outcome("recovered-ok");
                if spec.o_c03 {
                    let ents = entries.as_ref().ok();
                    let mut best: Option<usize> = None;
                    for (j, m) in pl.prefix_states.iter().enumerate() {
                        if m.st == *state && ents == Some(&entries_of(m)) {
                            best = Some(j);
                        }
                    }
                    match best {
                        None => vios.push(svio(
                            spec,
                            "recovered-state-is-not-a-prefix",
                            format!(
                                "crash at step {} (image {}): recovered state {:?} entries {:?} is not the result of any prefix of the writes issued",
                                step_no,
                                format!("{}{}", level, describe(img)),
                                state,
                                entries
                            ),
                            json!({"schedule": schedule_json(dfs), "crash_step": step_no, "image": format!("{}{}", level, describe(img))}),
                        )),
                        Some(j) if j < acked_a => vios.push(svio(
                            spec,
                            "acknowledged-write-lost",
                            format!(
                                "crash at step {} (image {}): recovered the prefix of {} writes, but {} writes were issued before an acknowledged flush",
                                step_no,
                                format!("{}{}", level, describe(img)),
                                j,
                                acked_a
                            ),
                            json!({"schedule": schedule_json(dfs), "crash_step": step_no, "image": format!("{}{}", level, describe(img))}),
                        )),
                        _ => {}
                    }
                }
                if spec.o_c05 {
                    if let Err(e) = &rec.usable {
                        vios.push(svio(
                            spec,
                            "recovered-store-not-usable",
                            format!("crash at step {} (image {}): {}", step_no, format!("{}{}", level, describe(img)), e),
                            json!({"schedule": schedule_json(dfs), "crash_step": step_no, "image": format!("{}{}", level, describe(img))}),
                        ));
                    }
                    if let Err(e) = &rec.usable_tiny {
                        // F3 mechanism: the entry appended after recovery (term of `last`,
                        // next index) has a log id below an id journalled earlier
                        let appended = (state.last.map(|l| l.0).unwrap_or(1), next_index(state.last.as_ref()));
                        // ids journalled in the recovered prefix
                        let ents = entries.as_ref().ok();
                        let mut jbest = 0usize;
                        for (j, m) in pl.prefix_states.iter().enumerate() {
                            if m.st == *state && ents == Some(&entries_of(m)) {
                                jbest = j;
                            }
                        }
                        let _ = jbest;
                        // the boundary the recovery protocol installs: `last` after every chunk
                        // before the newest chunk that holds a complete record (that chunk is
                        // re-opened, or, if its tail was cut, followed by a fresh open chunk)
                        let bp = protocol_boundary_after_recovery(img);
                        // classified by the mechanism (not by the wording of the error): the
                        // read-back after the append failed and the appended id is at or below
                        // the boundary a correct recovery installs
                        let key = if e.contains("PANIC") {
                            "recovered-store-read-panics"
                        } else if e.starts_with("after recovery + writes") && Some(appended) <= bp {
                            "F3:read-error-on-entry-reappended-below-truncated-id"
                        } else {
                            "recovered-store-not-usable-under-cache-pressure"
                        };
                        vios.push(svio(
                            spec,
                            key,
                            format!("crash at step {} (image {}), recovered with default chunk limits and a zero-size cache: {}", step_no, format!("{}{}", level, describe(img)), e),
                            json!({"schedule": schedule_json(dfs), "crash_step": step_no, "image": format!("{}{}", level, describe(img))}),
                        ));
                    }
                }
            }
            Opened::Err(e) => {
                stats.outcome("recovery-refused");
                if spec.o_c05 {
                    // classified by the image alone (not by the wording of the error)
                    let key = if image_has_rotation_gap(img, pl) {
                        "F5:gap-before-chunk-created-by-unfinished-rotation"
                    } else {
                        "recovery-refused"
                    };
                    vios.push(svio(
                        spec,
                        key,
                        format!("crash at step {} (image {}): open refused: {}", step_no, format!("{}{}", level, describe(img)), e),
                        json!({"schedule": schedule_json(dfs), "crash_step": step_no, "image": format!("{}{}", level, describe(img))}),
                    ));
                }
            }
            Opened::Panic(e) => {
                stats.outcome("recovery-panicked");
                if spec.o_c05 {
                    vios.push(svio(
                        spec,
                        "recovery-panics",
                        format!("crash at step {} (image {}): open panicked: {}", step_no, format!("{}{}", level, describe(img)), e),
                        json!({"schedule": schedule_json(dfs), "crash_step": step_no, "image": format!("{}{}", level, describe(img))}),
                    ));
                }
            }
        }
}

/// Always takes the first enabled transition (single managed thread + its worker).
struct FirstEnabled;
impl sched::Chooser for FirstEnabled {
    fn choose(&mut self, _step: usize, _enabled: &[sched::Enabled]) -> Option<usize> {
        Some(0)
    }
}

/// Crash during recovery: recover `img` under the tracer, and at every
/// file-system call recovery issues enumerate the second-level crash images
/// (what survived the first crash is durable; what recovery wrote since is not
/// unless it synced it) and judge them like first-level images.
#[allow(clippy::too_many_arguments)]
fn nested_crash(
    spec: &HistSpec,
    pl: &Plan,
    img: &Vec<(String, Vec<u8>)>,
    acked_a: usize,
    ctx: &mut HistCtx,
    vios: &mut Vec<Violation>,
    stats: &mut SchedStats,
    dfs: &Dfs,
    step_no: usize,
) {
    let dir = imagex::materialize(img);
    let cfg = spec.cfg;
    let d = dir.path.clone();
    let body: sched::ThreadBody = Box::new(move || {
        sched::op_gate("recover", OpGate::Always, sched::R_ALL);
        sched::set_extra_bits(sched::R_ALL);
        let r = open_store(&d, &cfg);
        let inst = sched::current_inst();
        drop(r);
        sched::mark_sender_dropped(inst);
        sched::set_extra_bits(0);
    });
    sched::set_lock_window(false);
    let res = sched::run_execution(vec![(ThreadKind::Caller, body)], &mut FirstEnabled);
    sched::set_lock_window(spec.lock_window);
    if res.hung.is_some() || res.deadlock.is_some() {
        return;
    }
    stats.nested_recoveries_traced += 1;
    let mut fs = ShadowFs::default();
    for (n, b) in img {
        fs.files.insert(n.clone(), shadow::SFile { content: b.clone(), durable: b.len() });
    }
    let mut seen_local: HashSet<u64> = HashSet::new();
    for ev in &res.trace {
        let Event::Fs { call, ret, .. } = ev else { continue };
        if !call.name.ends_with(".wal") {
            continue;
        }
        let mutating = matches!(call.kind, FsKind::Write | FsKind::Ftruncate | FsKind::Unlink | FsKind::Create | FsKind::Fsync | FsKind::Fdatasync);
        if !mutating {
            continue;
        }
        // state just before this call, with the call in flight if it is a write
        let mut per_file: Vec<(String, Vec<Vec<u8>>)> = vec![];
        for (name, f) in &fs.files {
            let mut full = f.content.clone();
            if call.kind == FsKind::Write && &call.name == name && call.arg.max(0) as usize == full.len() {
                full.extend_from_slice(&call.data);
            }
            per_file.push((name.clone(), shadow::file_variants(&full, f.durable, false)));
        }
        let (images, _) = shadow::cross(&per_file, 400);
        for im2 in images {
            let h = shadow::image_hash(&im2);
            if !seen_local.insert(h) {
                continue;
            }
            stats.nested_images += 1;
            judge_image(spec, pl, &im2, acked_a, ctx, vios, stats, dfs, step_no, "second crash during recovery; ");
        }
        fs.apply(call, *ret);
    }
    // the state after recovery completed (everything it wrote, unsynced parts cut)
    let mut per_file: Vec<(String, Vec<Vec<u8>>)> = vec![];
    for (name, f) in &fs.files {
        per_file.push((name.clone(), shadow::file_variants(&f.content, f.durable, false)));
    }
    let (images, _) = shadow::cross(&per_file, 400);
    for im2 in images {
        if seen_local.insert(shadow::image_hash(&im2)) {
            stats.nested_images += 1;
            judge_image(spec, pl, &im2, acked_a, ctx, vios, stats, dfs, step_no, "second crash after recovery; ");
        }
    }
}

#[allow(clippy::too_many_arguments)]
fn unlink_oracle(
    spec: &HistSpec,
    pl: &Plan,
    fs_before: &ShadowFs,
    name: &str,
    ops_done: usize,
    op_in_flight: bool,
    any_sync_failed: bool,
    ctx: &mut HistCtx,
    vios: &mut Vec<Violation>,
    stats: &mut SchedStats,
    dfs: &Dfs,
) {
    let digits: String = name.chars().filter(|c| c.is_ascii_digit()).collect();
    let start: u64 = digits.parse().unwrap_or(0);
    // (a) nothing live is stored in it
    let m0 = &pl.models[ops_done.min(pl.models.len() - 1)];
    let m1 = &pl.models[(ops_done + op_in_flight as usize).min(pl.models.len() - 1)];
    for (r, p, opi) in &pl.records {
        if p.chunk_start != start || *opi >= ops_done + op_in_flight as usize {
            continue;
        }
        if let MRec::Append(id, _) = r {
            let live = |m: &RefLog| m.entries.get(&id.1).map(|e| e.0) == Some(*id);
            if live(m0) && live(m1) {
                vios.push(svio(
                    spec,
                    "unlink-of-chunk-holding-live-entry",
                    format!("{} was deleted while it stores the live entry {:?}", name, id),
                    json!({"schedule": schedule_json(dfs)}),
                ));
                return;
            }
        }
    }
    // (b) oldest first
    let oldest = fs_before.files.keys().find(|k| k.ends_with(".wal")).cloned();
    if oldest.as_deref() != Some(name) {
        vios.push(svio(
            spec,
            "unlink-not-oldest-first",
            format!("{} was deleted while the older chunk {:?} still exists", name, oldest),
            json!({"schedule": schedule_json(dfs)}),
        ));
        return;
    }
    // (c) the purge that made it obsolete is durably recorded in what remains:
    // replay (with the reference decoder, not the store) the complete records
    // of the durable prefix of every remaining file, in order, up to the first
    // gap; the resulting state must be a prefix of the history that includes
    // the obsoleting purge.
    let _ = (&ctx, &stats);
    let mut after = fs_before.clone();
    after.files.remove(name);
    let mut m = RefLog::new();
    let mut prev_end: Option<u64> = None;
    for (n, f) in &after.files {
        if !n.ends_with(".wal") {
            continue;
        }
        let digits: String = n.chars().filter(|c| c.is_ascii_digit()).collect();
        let fstart: u64 = digits.parse().unwrap_or(0);
        if let Some(pe) = prev_end {
            if pe != fstart {
                break;
            }
        }
        let dur = &f.content[..f.durable.min(f.content.len())];
        let mut off = 0usize;
        while off < dur.len() {
            match crate::codecx::decode(&dur[off..]) {
                crate::codecx::Dec::Ok { rec, consumed, .. } if consumed > 0 => {
                    m.replay(&rec);
                    off += consumed;
                }
                _ => break,
            }
        }
        prev_end = Some(fstart + off as u64);
    }
    let need = pl.obsoleted_by.get(&start).map(|q| pl.recs_before_op[*q] + 1);
    let fail = |what: String, vios: &mut Vec<Violation>| {
        let key = if any_sync_failed { "F8:chunk-removed-after-failed-sync" } else { "unlink-before-purge-durable" };
        vios.push(svio(spec, key, what, json!({"schedule": schedule_json(dfs)})));
    };
    match need {
        None => vios.push(svio(
            spec,
            "unlink-of-chunk-not-obsolete",
            format!("{} was deleted but no purge in the history makes it obsolete", name),
            json!({"schedule": schedule_json(dfs)}),
        )),
        Some(need) => {
            let mut best = None;
            for (j, ps) in pl.prefix_states.iter().enumerate() {
                if ps.st == m.st && entries_of(ps) == entries_of(&m) {
                    best = Some(j);
                }
            }
            match best {
                Some(j) if j >= need => {}
                Some(j) => fail(
                    format!(
                        "{} deleted, but what is durable in the remaining files only holds the prefix of {} writes; the purge that made it obsolete is write {}",
                        name, j, need
                    ),
                    vios,
                ),
                None => fail(
                    format!("{} deleted; the durable remainder denotes a state that is no prefix of the history: {:?} {:?}", name, m.st, entries_of(&m)),
                    vios,
                ),
            }
        }
    }
}

// ---------------------------------------------------------------------------
// history generation
// ---------------------------------------------------------------------------

#[derive(Clone, Copy, Debug, PartialEq, Eq)]
pub enum Sym {
    Fn,
    A,
    Aup,
    Alow,
    Abig,
    Ahuge,
    Agiant,
    Amega,
    A17m,
    T,
    Pfirst,
    Plast,
    Pbeyond,
    V,
    C,
    U,
    F,
    W,
    I,
    R,
    E,
    S,
    Ks,
    Ki,
}

/// Instantiates a symbol at the current model state (None: not applicable).
pub fn instantiate(sym: Sym, m: &RefLog, outstanding_flushes: usize, waited: usize) -> Option<SOp> {
    let last = m.st.last;
    let term = last.map(|l| l.0).unwrap_or(1);
    let next = next_index(last.as_ref());
    let w = |op: Op| if m.accepts(&op) { Some(SOp::W(op)) } else { None };
    match sym {
        Sym::A => w(Op::Append(vec![((term, next), payload((term, next), 0))])),
        Sym::Aup => w(Op::Append(vec![((term + 2, next), payload((term + 2, next), 0))])),
        Sym::Alow => w(Op::Append(vec![((term + 1, next), payload((term + 1, next), 0))])),
        Sym::Abig => w(Op::Append(vec![((term, next), payload((term, next), 2))])),
        Sym::Ahuge => w(Op::Append(vec![((term, next), payload((term, next), 3))])),
        Sym::Agiant => w(Op::Append(vec![((term, next), payload((term, next), 4))])),
        Sym::Amega => w(Op::Append(vec![((term, next), payload((term, next), 5))])),
        Sym::A17m => w(Op::Append(vec![((term, next), payload((term, next), 7))])),
        Sym::T => {
            let l = last?;
            if m.entries.contains_key(&l.1) {
                w(Op::Truncate(l.1))
            } else {
                None
            }
        }
        Sym::Pfirst => {
            let f = m.entries.keys().next()?;
            w(Op::Purge(m.entries[f].0))
        }
        Sym::Plast => {
            let l = last?;
            let e = m.entries.get(&l.1)?;
            w(Op::Purge(e.0))
        }
        Sym::Pbeyond => w(Op::Purge((term, next + 1))),
        Sym::V => w(Op::Vote((m.st.vote.map(|v| v.0).unwrap_or(0) + 1, 1))),
        Sym::C => w(Op::Commit(last?)),
        Sym::U => w(Op::UserData(Some(format!("u{}", m.st.user_data.as_ref().map(|s| s.len()).unwrap_or(0) + 1)))),
        Sym::F => Some(SOp::Flush),
        Sym::Fn => Some(SOp::FlushNoCb),
        Sym::W => {
            if outstanding_flushes > waited {
                Some(SOp::WaitAck)
            } else {
                None
            }
        }
        Sym::I => Some(SOp::WaitIdle),
        Sym::R => Some(SOp::Read),
        Sym::E => Some(SOp::Drain),
        Sym::S => Some(SOp::CacheCheck),
        Sym::Ks => Some(SOp::SnapTake),
        Sym::Ki => Some(SOp::SnapIter),
    }
}

/// All histories of exactly `len` symbols over `alpha`, instantiated on the
/// model, filtered by `keep`.
pub fn histories(alpha: &[Sym], len: usize, keep: &dyn Fn(&[Sym], &[SOp]) -> bool) -> Vec<Vec<SOp>> {
    fn rec(
        alpha: &[Sym],
        len: usize,
        syms: &mut Vec<Sym>,
        ops: &mut Vec<SOp>,
        m: &RefLog,
        flushes: usize,
        waited: usize,
        keep: &dyn Fn(&[Sym], &[SOp]) -> bool,
        out: &mut Vec<Vec<SOp>>,
    ) {
        if syms.len() == len {
            if keep(syms, ops) {
                out.push(ops.clone());
            }
            return;
        }
        for s in alpha {
            // no-ops in a row carry no information
            if let Some(prev) = syms.last() {
                if matches!(s, Sym::I | Sym::R | Sym::E | Sym::S) && prev == s {
                    continue;
                }
            }
            let Some(op) = instantiate(*s, m, flushes, waited) else { continue };
            let mut m2 = m.clone();
            if let SOp::W(w) = &op {
                m2.apply(w);
            }
            syms.push(*s);
            ops.push(op.clone());
            rec(
                alpha,
                len,
                syms,
                ops,
                &m2,
                flushes + matches!(op, SOp::Flush) as usize,
                waited + matches!(op, SOp::WaitAck) as usize,
                keep,
                out,
            );
            syms.pop();
            ops.pop();
        }
    }
    let mut out = vec![];
    rec(alpha, len, &mut vec![], &mut vec![], &RefLog::new(), 0, 0, keep, &mut out);
    out
}

/// Builds a history from symbols (panics if a symbol is not applicable).
pub fn from_syms(syms: &[Sym]) -> Vec<SOp> {
    let mut m = RefLog::new();
    let mut ops = vec![];
    let mut flushes = 0;
    let mut waited = 0;
    for s in syms {
        let op = instantiate(*s, &m, flushes, waited).unwrap_or_else(|| panic!("symbol {:?} not applicable", s));
        if let SOp::W(w) = &op {
            m.apply(w);
        }
        flushes += matches!(op, SOp::Flush) as usize;
        waited += matches!(op, SOp::WaitAck) as usize;
        ops.push(op);
    }
    ops
}

pub const WALL_PER_SHARD: Duration = Duration::from_secs(3600);

/// Re-executes one recorded case (history + schedule) without the explorer and
/// evaluates the property's oracles on that single execution.
pub fn replay(prop: &str, r: &Value) -> i32 {
    let hist: Vec<SOp> = r["history"].as_array().map(|a| a.iter().map(sop_from_json).collect()).unwrap_or_default();
    let cfg = crate::seqx::cfg_from_json(&r["cfg"]);
    let policy = match r["fault_policy"].as_str().unwrap_or("None") {
        "WorkerEio" => FaultPolicy::WorkerEio,
        "WorkerAll" => FaultPolicy::WorkerAll,
        "WorkerSyncEio" => FaultPolicy::WorkerSyncEio,
        _ => FaultPolicy::None,
    };
    let spec = HistSpec {
        prop: prop.to_string(),
        hist,
        cfg,
        crash: matches!(prop, "C03" | "C05" | "C08"),
        every_byte_newest: false,
        max_faults: r["max_faults"].as_u64().unwrap_or(0) as usize,
        fault_policy: policy,
        o_c03: matches!(prop, "C03" | "C08"),
        o_c04: prop == "C04",
        o_c05: prop == "C05",
        o_c07: prop == "C07",
        o_c08: prop == "C08",
        o_c15: prop == "C15",
        max_executions: 1,
        lock_window: r["lock_window"].as_bool().unwrap_or(false),
        nested: false,
        fixed: false,
        caller_first_only: r["caller_first_only"].as_bool().unwrap_or(false),
        crash_final_only: false,
    };
    let schedule: Vec<(usize, String)> = r["extra"]["schedule"]
        .as_array()
        .or_else(|| r["schedule"].as_array())
        .map(|a| {
            a.iter()
                .filter_map(|x| x.as_str())
                .filter_map(|s| s.split_once(':').map(|(t, l)| (t.parse().unwrap_or(0), l.to_string())))
                .collect()
        })
        .unwrap_or_default();
    let pl = Arc::new(plan(&spec.hist, &spec.cfg));
    let faults_possible = spec.max_faults > 0 && spec.fault_policy != FaultPolicy::None;
    sched::set_lock_window(spec.lock_window);
    let mut rp = sched::Replay { schedule: schedule.clone(), divergence: None, max_faults: spec.max_faults, fault_policy: spec.fault_policy };
    let (res, co, acks, dir) = run_once(&spec, &pl, &mut rp, faults_possible);
    if let Some(d) = &rp.divergence {
        println!("REPLAY property={} the recorded schedule is no longer feasible on this tree: {}", prop, d);
        return 2;
    }
    let mut ctx = HistCtx { seen_states: HashSet::new(), images: HashMap::new(), nested_done: HashSet::new() };
    let mut vios = vec![];
    let mut stats = SchedStats::default();
    // the analysis wants a Dfs for schedule text; build one that reports the replayed schedule
    let dfs = Dfs::new(spec.max_faults, spec.fault_policy);
    analyze(&spec, &pl, &res, &co, &acks, &dir, &dfs, &mut ctx, &mut vios, &mut stats, faults_possible);
    println!("REPLAY property={} history=[{}] schedule_steps={} executed_steps={}", prop, shist_short(&spec.hist), schedule.len(), res.steps);
    if vios.is_empty() {
        println!("REPLAY property={} held for this case", prop);
        0
    } else {
        for v in vios.iter().take(5) {
            println!("REPLAY property={} VIOLATION key={} what={}", prop, v.key, v.what);
        }
        1
    }
}
