//! File-system call interposition: this binary defines the libc entry points
//! that std / fs2 use for file I/O, so every such call of the real store
//! arrives here first (the static linker binds std's references to these
//! definitions). For threads managed by the controlled scheduler and files
//! inside a scratch directory each call is a scheduling point, may be failed
//! or shortened on the explorer's request, and is appended to the trace.
//! Everything else is forwarded to the kernel untouched.

#![allow(clippy::missing_safety_doc)]

use std::cell::Cell;
use std::collections::HashMap;
use std::ffi::CStr;
use std::sync::Mutex;

use libc::c_char;
use libc::c_int;
use libc::c_void;
use libc::off64_t;
use libc::size_t;
use libc::ssize_t;

use crate::sched;

thread_local! {
    /// > 0: id of the managed thread + 1; 0: unmanaged (pass-through)
    pub static MANAGED: Cell<usize> = const { Cell::new(0) };
    /// re-entrancy guard (the scheduler itself does I/O on managed threads)
    static INSIDE: Cell<bool> = const { Cell::new(false) };
}

thread_local! {
    /// virtual clock for this thread: 0 = real time; n > 0 = every clock read
    /// returns real time + n * 10 s and increments n (any timed wait expires at once)
    static VCLOCK: Cell<u64> = const { Cell::new(0) };
}

pub fn vclock_set(on: bool) {
    let _ = VCLOCK.try_with(|v| v.set(if on { 1 } else { 0 }));
}

#[no_mangle]
pub unsafe extern "C" fn clock_gettime(clk: libc::clockid_t, ts: *mut libc::timespec) -> c_int {
    let r = libc::syscall(libc::SYS_clock_gettime, clk, ts) as c_int;
    if r == 0 && !ts.is_null() {
        let n = VCLOCK.try_with(|v| {
            let n = v.get();
            if n > 0 {
                v.set(n + 1);
            }
            n
        });
        if let Ok(n) = n {
            if n > 0 {
                (*ts).tv_sec += (n as i64) * 10;
            }
        }
    }
    r
}

pub fn managed_tid() -> Option<usize> {
    MANAGED.try_with(|m| m.get()).ok().and_then(|v| if v > 0 { Some(v - 1) } else { None })
}

pub fn set_managed(tid: Option<usize>) {
    let _ = MANAGED.try_with(|m| m.set(tid.map(|t| t + 1).unwrap_or(0)));
}

#[derive(Clone, Debug)]
pub struct FdInfo {
    /// base name inside the scratch directory ("LOCK", "r-...wal")
    pub name: String,
    /// directory the file lives in
    pub dir: String,
}

static FDS: Mutex<Option<HashMap<c_int, FdInfo>>> = Mutex::new(None);

fn fd_info(fd: c_int) -> Option<FdInfo> {
    let g = FDS.lock().ok()?;
    g.as_ref()?.get(&fd).cloned()
}

fn track_path(path: &str) -> Option<FdInfo> {
    if !path.starts_with("/dev/shm/vx-") {
        return None;
    }
    let (dir, name) = path.rsplit_once('/')?;
    if name == "LOCK" || name.ends_with(".wal") {
        Some(FdInfo { name: name.to_string(), dir: dir.to_string() })
    } else {
        None
    }
}

fn set_errno(e: c_int) {
    unsafe {
        *libc::__errno_location() = e;
    }
}

fn errno() -> c_int {
    unsafe { *libc::__errno_location() }
}

/// true iff this call must go through the scheduler
fn controlled() -> Option<usize> {
    if !sched::active() {
        return None;
    }
    if INSIDE.try_with(|i| i.get()).unwrap_or(true) {
        return None;
    }
    managed_tid()
}

/// A mutating call on a tracked file by a thread the scheduler does not manage,
/// while an execution is running: the code under test has started a thread of
/// its own. The call goes through; the scheduler records it.
fn note_unmanaged(kind: &str, name: &str) {
    if !sched::active() || managed_tid().is_some() {
        return;
    }
    if INSIDE.try_with(|i| i.get()).unwrap_or(true) {
        return;
    }
    let _g = Guard::enter();
    sched::note_unmanaged_fs(format!("{}({})", kind, name));
}

struct Guard;
impl Guard {
    fn enter() -> Guard {
        let _ = INSIDE.try_with(|i| i.set(true));
        Guard
    }
}
impl Drop for Guard {
    fn drop(&mut self) {
        let _ = INSIDE.try_with(|i| i.set(false));
    }
}

#[derive(Clone, Debug, PartialEq, Eq)]
pub enum FsKind {
    Create,
    Open,
    Write,
    Read,
    /// lseek on a tracked file (moves the position shared by every user of the fd)
    Seek,
    Pread,
    Fdatasync,
    Fsync,
    Ftruncate,
    Unlink,
    Flock,
    Close,
    Opendir,
}

#[derive(Clone, Debug)]
pub struct FsCall {
    pub kind: FsKind,
    pub name: String,
    pub dir: String,
    pub fd: c_int,
    /// write: data; others: empty
    pub data: Vec<u8>,
    /// write/pread: file offset the call applies at; ftruncate: new length;
    /// flock: operation
    pub arg: i64,
    pub len: usize,
}

#[derive(Clone, Copy, Debug, PartialEq, Eq)]
pub enum Fault {
    None,
    Eio,
    Eintr,
    /// complete only this many bytes of a write
    Short(usize),
}

// ---------------------------------------------------------------------------

#[no_mangle]
pub unsafe extern "C" fn open64(path: *const c_char, flags: c_int, mode: libc::mode_t) -> c_int {
    let p = CStr::from_ptr(path).to_string_lossy().to_string();
    let info = track_path(&p);
    let ctl = if info.is_some() { controlled() } else { None };
    let do_open = || libc::syscall(libc::SYS_openat, libc::AT_FDCWD, path, flags | libc::O_LARGEFILE, mode as c_int) as c_int;
    let fd = match (ctl, &info) {
        (Some(tid), Some(inf)) => {
            let _g = Guard::enter();
            let call = FsCall {
                kind: if flags & libc::O_CREAT != 0 && inf.name != "LOCK" { FsKind::Create } else { FsKind::Open },
                name: inf.name.clone(),
                dir: inf.dir.clone(),
                fd: -1,
                data: vec![],
                arg: flags as i64,
                len: 0,
            };
            let fault = sched::fs_gate(tid, &call);
            let r = match fault {
                Fault::Eio => {
                    set_errno(libc::EIO);
                    -1
                }
                _ => do_open(),
            };
            let e = errno();
            sched::fs_done(tid, call, r as i64, e);
            set_errno(e);
            r
        }
        _ => do_open(),
    };
    if fd >= 0 {
        if let Some(inf) = info {
            let e = errno();
            if let Ok(mut g) = FDS.lock() {
                g.get_or_insert_with(HashMap::new).insert(fd, inf);
            }
            set_errno(e);
        }
    }
    fd
}

/// A duplicated descriptor refers to the same open file (shared position):
/// it inherits the tracking of its source, so calls through it are seen too.
fn inherit_fd(src: c_int, new: c_int) {
    if new < 0 {
        return;
    }
    let e = errno();
    if let Ok(mut g) = FDS.lock() {
        let m = g.get_or_insert_with(HashMap::new);
        match m.get(&src).cloned() {
            Some(inf) => {
                m.insert(new, inf);
            }
            None => {
                m.remove(&new);
            }
        }
    }
    set_errno(e);
}

/// `fcntl` is variadic in C; on the supported targets its optional argument
/// travels like an ordinary third integer argument.
#[no_mangle]
pub unsafe extern "C" fn fcntl(fd: c_int, cmd: c_int, arg: libc::c_long) -> c_int {
    let r = libc::syscall(libc::SYS_fcntl, fd, cmd, arg) as c_int;
    if cmd == libc::F_DUPFD || cmd == libc::F_DUPFD_CLOEXEC {
        inherit_fd(fd, r);
    }
    r
}

#[no_mangle]
pub unsafe extern "C" fn fcntl64(fd: c_int, cmd: c_int, arg: libc::c_long) -> c_int {
    fcntl(fd, cmd, arg)
}

#[no_mangle]
pub unsafe extern "C" fn dup(fd: c_int) -> c_int {
    let r = libc::syscall(libc::SYS_dup, fd) as c_int;
    inherit_fd(fd, r);
    r
}

#[no_mangle]
pub unsafe extern "C" fn close(fd: c_int) -> c_int {
    let info = {
        match FDS.lock() {
            Ok(mut g) => g.as_mut().and_then(|m| m.remove(&fd)),
            Err(_) => None,
        }
    };
    let do_close = || libc::syscall(libc::SYS_close, fd) as c_int;
    match (&info, controlled()) {
        (Some(inf), Some(tid)) if inf.name == "LOCK" => {
            let _g = Guard::enter();
            let call = FsCall { kind: FsKind::Close, name: inf.name.clone(), dir: inf.dir.clone(), fd, data: vec![], arg: 0, len: 0 };
            let _ = sched::fs_gate(tid, &call);
            let r = do_close();
            let e = errno();
            sched::fs_done(tid, call, r as i64, e);
            set_errno(e);
            r
        }
        _ => do_close(),
    }
}

#[no_mangle]
pub unsafe extern "C" fn write(fd: c_int, buf: *const c_void, n: size_t) -> ssize_t {
    let ctl = controlled();
    let info = if ctl.is_some() { fd_info(fd) } else { None };
    match (ctl, info) {
        (Some(tid), Some(inf)) => {
            let _g = Guard::enter();
            let data = std::slice::from_raw_parts(buf as *const u8, n).to_vec();
            let off = libc::syscall(libc::SYS_lseek, fd, 0, libc::SEEK_CUR);
            let call = FsCall { kind: FsKind::Write, name: inf.name, dir: inf.dir, fd, data, arg: off, len: n };
            let fault = sched::fs_gate(tid, &call);
            // the offset may have moved while parked (shared file description)
            let off = libc::syscall(libc::SYS_lseek, fd, 0, libc::SEEK_CUR);
            let mut call = call;
            call.arg = off;
            let r = match fault {
                Fault::Eio => {
                    set_errno(libc::EIO);
                    -1
                }
                Fault::Eintr => {
                    set_errno(libc::EINTR);
                    -1
                }
                Fault::Short(k) => libc::syscall(libc::SYS_write, fd, buf, k.min(n)) as ssize_t,
                Fault::None => libc::syscall(libc::SYS_write, fd, buf, n) as ssize_t,
            };
            let e = errno();
            sched::fs_done(tid, call, r as i64, e);
            set_errno(e);
            r
        }
        _ => {
            if sched::active() && fd > 2 {
                if let Some(inf) = fd_info(fd) {
                    if inf.name.ends_with(".wal") {
                        note_unmanaged("write", &inf.name);
                    }
                }
            }
            libc::syscall(libc::SYS_write, fd, buf, n) as ssize_t
        }
    }
}

#[no_mangle]
pub unsafe extern "C" fn read(fd: c_int, buf: *mut c_void, n: size_t) -> ssize_t {
    let ctl = controlled();
    let info = if ctl.is_some() { fd_info(fd) } else { None };
    match (ctl, info) {
        (Some(tid), Some(inf)) => {
            let _g = Guard::enter();
            let off = libc::syscall(libc::SYS_lseek, fd, 0, libc::SEEK_CUR);
            let call = FsCall { kind: FsKind::Read, name: inf.name, dir: inf.dir, fd, data: vec![], arg: off, len: n };
            let _ = sched::fs_gate(tid, &call);
            let r = libc::syscall(libc::SYS_read, fd, buf, n) as ssize_t;
            let e = errno();
            sched::fs_done(tid, call, r as i64, e);
            set_errno(e);
            r
        }
        _ => libc::syscall(libc::SYS_read, fd, buf, n) as ssize_t,
    }
}

unsafe fn seek_like(fd: c_int, off: off64_t, whence: c_int) -> off64_t {
    let ctl = controlled();
    let info = if ctl.is_some() { fd_info(fd) } else { None };
    match (ctl, info) {
        // a pure position query does not touch shared state
        (Some(tid), Some(inf)) if !(whence == libc::SEEK_CUR && off == 0) => {
            let _g = Guard::enter();
            let call = FsCall { kind: FsKind::Seek, name: inf.name, dir: inf.dir, fd, data: vec![], arg: off, len: whence as usize };
            let _ = sched::fs_gate(tid, &call);
            let r = libc::syscall(libc::SYS_lseek, fd, off, whence) as off64_t;
            let e = errno();
            sched::fs_done(tid, call, r, e);
            set_errno(e);
            r
        }
        _ => libc::syscall(libc::SYS_lseek, fd, off, whence) as off64_t,
    }
}

#[no_mangle]
pub unsafe extern "C" fn lseek64(fd: c_int, off: off64_t, whence: c_int) -> off64_t {
    seek_like(fd, off, whence)
}

#[no_mangle]
pub unsafe extern "C" fn lseek(fd: c_int, off: off64_t, whence: c_int) -> off64_t {
    seek_like(fd, off, whence)
}

#[no_mangle]
pub unsafe extern "C" fn pread64(fd: c_int, buf: *mut c_void, n: size_t, off: off64_t) -> ssize_t {
    let ctl = controlled();
    let info = if ctl.is_some() { fd_info(fd) } else { None };
    match (ctl, info) {
        (Some(tid), Some(inf)) => {
            let _g = Guard::enter();
            let call = FsCall { kind: FsKind::Pread, name: inf.name, dir: inf.dir, fd, data: vec![], arg: off, len: n };
            let _ = sched::fs_gate(tid, &call);
            let r = libc::syscall(libc::SYS_pread64, fd, buf, n, off) as ssize_t;
            let e = errno();
            sched::fs_done(tid, call, r as i64, e);
            set_errno(e);
            r
        }
        _ => libc::syscall(libc::SYS_pread64, fd, buf, n, off) as ssize_t,
    }
}

unsafe fn sync_like(fd: c_int, kind: FsKind, nr: libc::c_long) -> c_int {
    let ctl = controlled();
    let info = if ctl.is_some() { fd_info(fd) } else { None };
    match (ctl, info) {
        (Some(tid), Some(inf)) => {
            let _g = Guard::enter();
            let call = FsCall { kind, name: inf.name, dir: inf.dir, fd, data: vec![], arg: 0, len: 0 };
            let fault = sched::fs_gate(tid, &call);
            let r = match fault {
                Fault::Eio => {
                    set_errno(libc::EIO);
                    -1
                }
                Fault::Eintr => {
                    set_errno(libc::EINTR);
                    -1
                }
                // tmpfs: the real call is a no-op, still issue it
                _ => libc::syscall(nr, fd) as c_int,
            };
            let e = errno();
            sched::fs_done(tid, call, r as i64, e);
            set_errno(e);
            r
        }
        _ => libc::syscall(nr, fd) as c_int,
    }
}

#[no_mangle]
pub unsafe extern "C" fn fdatasync(fd: c_int) -> c_int {
    sync_like(fd, FsKind::Fdatasync, libc::SYS_fdatasync)
}

#[no_mangle]
pub unsafe extern "C" fn fsync(fd: c_int) -> c_int {
    sync_like(fd, FsKind::Fsync, libc::SYS_fsync)
}

#[no_mangle]
pub unsafe extern "C" fn ftruncate64(fd: c_int, len: off64_t) -> c_int {
    let ctl = controlled();
    let info = if ctl.is_some() { fd_info(fd) } else { None };
    match (ctl, info) {
        (Some(tid), Some(inf)) => {
            let _g = Guard::enter();
            let call = FsCall { kind: FsKind::Ftruncate, name: inf.name, dir: inf.dir, fd, data: vec![], arg: len, len: 0 };
            let _ = sched::fs_gate(tid, &call);
            let r = libc::syscall(libc::SYS_ftruncate, fd, len) as c_int;
            let e = errno();
            sched::fs_done(tid, call, r as i64, e);
            set_errno(e);
            r
        }
        _ => libc::syscall(libc::SYS_ftruncate, fd, len) as c_int,
    }
}

#[no_mangle]
pub unsafe extern "C" fn unlink(path: *const c_char) -> c_int {
    let p = CStr::from_ptr(path).to_string_lossy().to_string();
    let info = track_path(&p);
    let ctl = if info.is_some() { controlled() } else { None };
    match (ctl, info) {
        (Some(tid), Some(inf)) => {
            let _g = Guard::enter();
            let call = FsCall { kind: FsKind::Unlink, name: inf.name, dir: inf.dir, fd: -1, data: vec![], arg: 0, len: 0 };
            let fault = sched::fs_gate(tid, &call);
            let r = match fault {
                Fault::Eio => {
                    set_errno(libc::EIO);
                    -1
                }
                _ => libc::syscall(libc::SYS_unlinkat, libc::AT_FDCWD, path, 0) as c_int,
            };
            let e = errno();
            sched::fs_done(tid, call, r as i64, e);
            set_errno(e);
            r
        }
        (None, Some(inf)) => {
            if inf.name.ends_with(".wal") {
                note_unmanaged("unlink", &inf.name);
            }
            libc::syscall(libc::SYS_unlinkat, libc::AT_FDCWD, path, 0) as c_int
        }
        _ => libc::syscall(libc::SYS_unlinkat, libc::AT_FDCWD, path, 0) as c_int,
    }
}

#[no_mangle]
pub unsafe extern "C" fn flock(fd: c_int, op: c_int) -> c_int {
    let ctl = controlled();
    let info = if ctl.is_some() { fd_info(fd) } else { None };
    match (ctl, info) {
        (Some(tid), Some(inf)) => {
            let _g = Guard::enter();
            let call = FsCall { kind: FsKind::Flock, name: inf.name, dir: inf.dir, fd, data: vec![], arg: op as i64, len: 0 };
            let _ = sched::fs_gate(tid, &call);
            let r = libc::syscall(libc::SYS_flock, fd, op) as c_int;
            let e = errno();
            sched::fs_done(tid, call, r as i64, e);
            set_errno(e);
            r
        }
        _ => libc::syscall(libc::SYS_flock, fd, op) as c_int,
    }
}

type OpendirFn = unsafe extern "C" fn(*const c_char) -> *mut libc::DIR;

#[no_mangle]
pub unsafe extern "C" fn opendir(path: *const c_char) -> *mut libc::DIR {
    static REAL: std::sync::OnceLock<usize> = std::sync::OnceLock::new();
    let real = *REAL.get_or_init(|| libc::dlsym(libc::RTLD_NEXT, c"opendir".as_ptr()) as usize);
    let real: OpendirFn = std::mem::transmute(real);
    let p = CStr::from_ptr(path).to_string_lossy().to_string();
    let ctl = if p.starts_with("/dev/shm/vx-") { controlled() } else { None };
    match ctl {
        Some(tid) => {
            let _g = Guard::enter();
            let call = FsCall { kind: FsKind::Opendir, name: String::new(), dir: p, fd: -1, data: vec![], arg: 0, len: 0 };
            let _ = sched::fs_gate(tid, &call);
            let r = real(path);
            let e = errno();
            sched::fs_done(tid, call, if r.is_null() { -1 } else { 0 }, e);
            set_errno(e);
            r
        }
        None => real(path),
    }
}
