//! Controlled scheduler: strict alternation of managed threads at gates.
//!
//! Managed threads (harness caller/reader threads and the store's real
//! `FlushWorker` threads) park at gates — `verif-hooks` probe points and
//! interposed file-system calls — after announcing their next transition.
//! The scheduler (the thread that called `run_execution`) waits until every
//! live managed thread is parked, computes the enabled set, asks the
//! `Chooser` which transition to run, grants it and repeats.

use std::collections::VecDeque;
use std::sync::atomic::AtomicBool;
use std::sync::atomic::Ordering;
use std::sync::Arc;
use std::sync::Condvar;
use std::sync::Mutex;
use std::sync::MutexGuard;
use std::time::Duration;
use std::time::Instant;

use crate::interpose;
use crate::interpose::Fault;
use crate::interpose::FsCall;
use crate::interpose::FsKind;
use crate::vt::AckEvent;

static ACTIVE: AtomicBool = AtomicBool::new(false);
/// lock-window mode: the worker also parks INSIDE its cache write-lock section,
/// so other threads can be scheduled while the lock is held (they then block in
/// the kernel and are handled by the blocked-thread supervision)
static LOCK_WINDOW: AtomicBool = AtomicBool::new(false);

/// impatient-drop mode: the `caller.join` gate is always enabled (a real join
/// then blocks in the kernel and is supervised), and from that gate to the
/// caller's next gate its clock jumps 10 s per reading, so a bounded wait for
/// the worker gives up at once.
static IMPATIENT: AtomicBool = AtomicBool::new(false);

pub fn set_impatient(on: bool) {
    IMPATIENT.store(on, Ordering::Release);
}

pub fn set_lock_window(on: bool) {
    LOCK_WINDOW.store(on, Ordering::Release);
}

static PATIENT: AtomicBool = AtomicBool::new(false);

/// Histories that move tens of MiB per step: a thread may legitimately run for
/// seconds between two scheduling points on a busy machine.
pub fn set_patient(on: bool) {
    PATIENT.store(on, Ordering::Release);
}

fn blocked_after() -> Duration {
    if PATIENT.load(Ordering::Acquire) {
        return Duration::from_secs(45);
    }
    if IMPATIENT.load(Ordering::Acquire) {
        Duration::from_millis(200)
    } else if LOCK_WINDOW.load(Ordering::Acquire) {
        Duration::from_millis(1000)
    } else {
        BLOCKED_AFTER
    }
}

pub fn active() -> bool {
    ACTIVE.load(Ordering::Acquire)
}

// ---- resources -------------------------------------------------------------

pub const R_CHAN: u32 = 1;
pub const R_CACHE: u32 = 2;
pub const R_ACK: u32 = 4;
pub const R_DONE: u32 = 8;
pub const R_DIR: u32 = 16;
pub const R_LOCK: u32 = 32;
/// worker parked at recv / caller waiting for an idle worker
pub const R_IDLE: u32 = 64;
pub const R_ALL: u32 = 1 << 31;

/// read-only access to the payload cache (conflicts with R_CACHE, not with itself)
pub const R_CACHE_R: u32 = 128;

#[derive(Clone, Debug, Default, PartialEq, Eq)]
pub struct Res {
    pub bits: u32,
    /// files written / synced / truncated / created / unlinked
    pub files: Vec<String>,
    /// files only read
    pub files_r: Vec<String>,
}

impl Res {
    pub fn bits(b: u32) -> Res {
        Res { bits: b, files: vec![], files_r: vec![] }
    }
    pub fn independent(&self, o: &Res) -> bool {
        if (self.bits | o.bits) & R_ALL != 0 {
            return false;
        }
        if self.bits & o.bits & !R_CACHE_R != 0 {
            return false;
        }
        // readers of the cache conflict with writers of the (same instance's) cache
        let cache_w = |b: u32| b & (R_CACHE | (R_CACHE << 8) | (R_CACHE << 16)) != 0;
        if (self.bits & R_CACHE_R != 0 && cache_w(o.bits)) || (o.bits & R_CACHE_R != 0 && cache_w(self.bits)) {
            return false;
        }
        if self.files.iter().any(|f| o.files.contains(f) || o.files_r.contains(f)) {
            return false;
        }
        !self.files_r.iter().any(|f| o.files.contains(f))
    }
}

/// Channel, cache and idle resources are per store instance: instance k > 0
/// gets its own bits so that an old instance's worker and a new instance do
/// not look dependent through them.
pub fn inst_bits(bits: u32, inst: usize) -> u32 {
    if inst == 0 || bits & R_ALL != 0 {
        return bits;
    }
    let per_inst = R_CHAN | R_CACHE | R_IDLE;
    let shift = 8 * (inst.min(2) as u32);
    (bits & !per_inst) | ((bits & per_inst) << shift)
}

// ---- transitions -----------------------------------------------------------

#[derive(Clone, Debug, PartialEq, Eq)]
pub enum Point {
    Hook(&'static str, u64),
    Fs(FsKind, String),
    /// harness-level operation boundary; the string is the op's label
    Op(String, OpGate),
}

#[derive(Clone, Debug, PartialEq, Eq)]
pub enum OpGate {
    Always,
    WaitAck(u64),
    WaitIdle(usize),
    /// enabled once the harness flag with this bit is set
    Flag(u32),
}

#[derive(Clone, Debug)]
pub struct Pending {
    pub point: Point,
    pub res: Res,
    pub call: Option<FsCall>,
}

impl Pending {
    pub fn label(&self) -> String {
        match &self.point {
            Point::Hook(p, a) => format!("{}({})", p, a),
            Point::Fs(k, n) => format!("{:?}({})", k, n),
            Point::Op(s, _) => format!("op:{}", s),
        }
    }
}

#[derive(Clone, Copy, Debug, PartialEq, Eq)]
pub enum TState {
    Starting,
    Running,
    Parked,
    Blocked,
    Finished,
}

#[derive(Clone, Copy, Debug, PartialEq, Eq)]
pub enum ThreadKind {
    Caller,
    Reader,
    Worker,
    Contender,
}

pub struct Slot {
    pub state: TState,
    pub kind: ThreadKind,
    pub inst: usize,
    pub pending: Option<Pending>,
    grant: Option<Fault>,
    cv: Arc<Condvar>,
    /// extra resource bits added to every transition of this thread (set by
    /// the harness around open/drop operations)
    pub extra_bits: u32,
    running_since: Instant,
}

#[derive(Clone, Debug)]
pub enum Event {
    Step { tid: usize, label: String, fault: Fault },
    Fs { tid: usize, call: FsCall, ret: i64, errno: i32 },
    Hook { tid: usize, point: &'static str, a: u64 },
    Ack(AckEvent),
    OpStart { tid: usize, idx: usize },
    OpEnd { tid: usize, idx: usize, ok: bool, info: String },
    Note(String),
}

#[derive(Default)]
pub struct Inner {
    pub slots: Vec<Slot>,
    pub trace: Vec<Event>,
    /// per instance: kinds of the queued requests, oldest first
    pub queues: Vec<VecDeque<u64>>,
    pub sender_dropped: Vec<bool>,
    pub worker_of_inst: Vec<Option<usize>>,
    pub worker_failed: Vec<bool>,
    /// id announced by `worker.spawn` -> slot awaiting the matching `worker.start`
    pending_starts: VecDeque<(u64, usize)>,
    pub degraded: bool,
    pub violations: Vec<crate::report::Violation>,
    pub notes: Vec<String>,
    /// mutating file-system calls on the scratch directory issued by a thread the
    /// scheduler does not manage (the code under test started a thread of its own)
    pub unmanaged_fs: Vec<String>,
    pub flags: u32,
    need_supervisor: bool,
    supervisor_deciding: bool,
    last_change: Option<Instant>,
    chooser: Option<ChooserPtr>,
    over: bool,
    deadlock: Option<String>,
    draining: bool,
    steps: usize,
    pendings: Vec<Vec<(usize, Pending)>>,
}

#[derive(Clone, Copy)]
struct ChooserPtr(*mut dyn Chooser);
// only dereferenced under the scheduler lock while run_execution is active
unsafe impl Send for ChooserPtr {}

static INNER: Mutex<Option<Inner>> = Mutex::new(None);
static CV_SCHED: Condvar = Condvar::new();

fn lock() -> MutexGuard<'static, Option<Inner>> {
    match INNER.lock() {
        Ok(g) => g,
        Err(p) => p.into_inner(),
    }
}

pub fn with_inner<R>(f: impl FnOnce(&mut Inner) -> R) -> Option<R> {
    let mut g = lock();
    g.as_mut().map(f)
}

// ---- thread side -------------------------------------------------------------

/// Parks the calling managed thread until the scheduler grants `p`.
pub fn gate(tid: usize, mut p: Pending) -> Fault {
    interpose::vclock_set(false);
    let mut g = lock();
    let cv = {
        let Some(inner) = g.as_mut() else { return Fault::None };
        let Some(slot) = inner.slots.get_mut(tid) else { return Fault::None };
        p.res.bits |= slot.extra_bits;
        // The caller touches the payload cache in the first segment of an
        // operation (apply/insert/evict, stat) and, for reads, between the
        // preads; those are tagged by the op gate / extra_bits. Its other
        // segments (chunk creation, head write, channel sends) do not.
        if matches!(slot.kind, ThreadKind::Caller) && matches!(p.point, Point::Op(..)) {
            p.res.bits |= R_CACHE;
        }
        slot.pending = Some(p);
        slot.state = TState::Parked;
        slot.grant = None;
        let cv = slot.cv.clone();
        inner.last_change = Some(Instant::now());
        cv
    };
    // baton passing: whoever parks last makes the scheduling decision, so a
    // thread that is chosen again continues without any context switch
    if let Some(inner) = g.as_mut() {
        decide(inner);
    }
    loop {
        {
            let Some(inner) = g.as_mut() else { return Fault::None };
            let slot = &mut inner.slots[tid];
            if let Some(f) = slot.grant.take() {
                slot.state = TState::Running;
                slot.running_since = Instant::now();
                slot.pending = None;
                return f;
            }
        }
        g = match cv.wait(g) {
            Ok(g) => g,
            Err(p) => p.into_inner(),
        };
    }
}

/// Makes one scheduling decision if every live managed thread is parked or
/// finished. Called (under the lock) by whichever thread parks or finishes.
fn decide(inner: &mut Inner) {
    if inner.over {
        return;
    }
    if inner.slots.iter().any(|s| matches!(s.state, TState::Starting | TState::Running)) {
        return;
    }
    // somebody already holds a grant it has not picked up yet
    if inner.slots.iter().any(|s| s.grant.is_some()) {
        return;
    }
    // While a thread is blocked in the kernel it may come back at any moment;
    // to keep the enabled sets deterministic the supervisor makes the decision
    // after a grace period instead.
    if !inner.supervisor_deciding && inner.slots.iter().any(|s| s.state == TState::Blocked) {
        inner.need_supervisor = true;
        CV_SCHED.notify_all();
        return;
    }
    let Some(chp) = inner.chooser else { return };
    // SAFETY: the pointer is set by run_execution for the duration of the
    // execution, which outlives every managed thread's use, and is only
    // dereferenced under the scheduler lock.
    let chooser: &mut dyn Chooser = unsafe { &mut *chp.0 };
    let enabled = enabled_now(inner, chooser);
    if enabled.is_empty() {
        let unfinished: Vec<String> = inner
            .slots
            .iter()
            .enumerate()
            .filter(|(_, s)| s.state != TState::Finished)
            .map(|(t, s)| format!("t{}:{:?}:{:?}:{}", t, s.kind, s.state, s.pending.as_ref().map(|p| p.label()).unwrap_or_default()))
            .collect();
        if unfinished.is_empty() {
            inner.over = true;
        } else if inner.slots.iter().any(|s| s.state == TState::Blocked) {
            // blocked threads may still come back; the supervisor times this out
        } else {
            inner.deadlock = Some(unfinished.join(" "));
            inner.over = true;
        }
        CV_SCHED.notify_all();
        return;
    }
    let choice = if inner.draining { Some(0) } else { chooser.choose(inner.steps, &enabled) };
    let idx = match choice {
        Some(i) => i,
        None => {
            inner.draining = true;
            0
        }
    };
    inner.pendings.push(
        inner
            .slots
            .iter()
            .enumerate()
            .filter(|(_, s)| s.state == TState::Parked)
            .filter_map(|(t, s)| s.pending.clone().map(|p| (t, p)))
            .collect(),
    );
    let e = &enabled[idx];
    let tid = e.tid;
    let inst = inner.slots[tid].inst;
    match inner.slots[tid].pending.as_ref().map(|p| p.point.clone()) {
        Some(Point::Hook("worker.recv", _)) => {
            inner.queues[inst].pop_front();
        }
        Some(Point::Hook("caller.send", k)) => inner.queues[inst].push_back(k),
        _ => {}
    }
    inner.trace.push(Event::Step { tid, label: e.label.clone(), fault: e.fault });
    let slot = &mut inner.slots[tid];
    slot.grant = Some(e.fault);
    slot.cv.notify_all();
    inner.steps += 1;
}

pub fn fs_gate(tid: usize, call: &FsCall) -> Fault {
    let res = match call.kind {
        FsKind::Create | FsKind::Unlink => Res { bits: R_DIR, files: vec![call.name.clone()], files_r: vec![] },
        // a positional read only reads; read() and lseek() also move the file
        // position, which every user of the same open file shares: write class
        FsKind::Pread => Res { bits: 0, files: vec![], files_r: vec![call.name.clone()] },
        FsKind::Read | FsKind::Seek => Res { bits: 0, files: vec![call.name.clone()], files_r: vec![] },
        FsKind::Opendir => Res::bits(R_DIR),
        FsKind::Open => {
            if call.name == "LOCK" {
                Res::bits(R_LOCK | R_DIR)
            } else {
                Res::bits(R_DIR)
            }
        }
        FsKind::Flock | FsKind::Close => Res::bits(R_LOCK),
        _ => Res { bits: 0, files: vec![call.name.clone()], files_r: vec![] },
    };
    gate(tid, Pending { point: Point::Fs(call.kind.clone(), call.name.clone()), res, call: Some(call.clone()) })
}

/// Called by the interposition for a mutating call on a tracked file issued by
/// an unmanaged thread while an execution is active.
pub fn note_unmanaged_fs(what: String) {
    if let Ok(mut g) = INNER.lock() {
        if let Some(i) = g.as_mut() {
            if i.unmanaged_fs.len() < 16 {
                i.unmanaged_fs.push(what);
            }
        }
    }
}

pub fn fs_done(tid: usize, call: FsCall, ret: i64, errno: i32) {
    with_inner(|i| i.trace.push(Event::Fs { tid, call, ret, errno }));
}

pub fn on_ack(ev: &AckEvent) {
    if !active() || interpose::managed_tid().is_none() {
        return;
    }
    with_inner(|i| i.trace.push(Event::Ack(ev.clone())));
}

pub fn note(s: String) {
    with_inner(|i| i.trace.push(Event::Note(s)));
}

/// The probe installed into raft-log's verif-hooks.
pub struct HookProbe;

impl raft_log::verif_hooks::Probe for HookProbe {
    fn at(&self, point: &'static str, a: u64) {
        if !active() {
            return;
        }
        let tid = interpose::managed_tid();
        match point {
            "worker.spawn" => {
                let Some(parent) = tid else { return };
                with_inner(|i| {
                    let inst = i.queues.len();
                    i.queues.push(VecDeque::new());
                    i.sender_dropped.push(false);
                    i.worker_failed.push(false);
                    let wt = i.slots.len();
                    i.slots.push(Slot {
                        state: TState::Starting,
                        kind: ThreadKind::Worker,
                        inst,
                        pending: None,
                        grant: None,
                        cv: Arc::new(Condvar::new()),
                        extra_bits: 0,
                        running_since: Instant::now(),
                    });
                    i.worker_of_inst.push(Some(wt));
                    i.pending_starts.push_back((a, wt));
                    // the spawning thread now talks to this instance
                    i.slots[parent].inst = inst;
                    i.trace.push(Event::Hook { tid: parent, point, a: inst as u64 });
                });
            }
            "worker.start" => {
                if tid.is_some() {
                    return;
                }
                let got = with_inner(|i| {
                    // only the thread whose spawn was announced by a managed thread
                    let pos = i.pending_starts.iter().position(|(id, _)| *id == a)?;
                    let (_, wt) = i.pending_starts.remove(pos)?;
                    i.slots[wt].state = TState::Running;
                    i.slots[wt].running_since = Instant::now();
                    Some(wt)
                })
                .flatten();
                if let Some(wt) = got {
                    interpose::set_managed(Some(wt));
                }
            }
            "worker.exit" => {
                let Some(t) = tid else { return };
                interpose::set_managed(None);
                with_inner(|i| {
                    i.slots[t].state = TState::Finished;
                    i.slots[t].pending = None;
                    i.trace.push(Event::Hook { tid: t, point, a });
                    decide(i);
                });
                CV_SCHED.notify_all();
            }
            "worker.failed" => {
                let Some(t) = tid else { return };
                with_inner(|i| {
                    let inst = i.slots[t].inst;
                    i.worker_failed[inst] = true;
                    i.trace.push(Event::Hook { tid: t, point, a });
                });
            }
            "caller.disconnect" => {
                let Some(t) = tid else { return };
                with_inner(|i| {
                    let inst = i.slots[t].inst;
                    if inst < i.sender_dropped.len() {
                        i.sender_dropped[inst] = true;
                    }
                    i.trace.push(Event::Hook { tid: t, point, a });
                });
            }
            "worker.batched" => {
                let Some(t) = tid else { return };
                with_inner(|i| {
                    let inst = i.slots[t].inst;
                    for _ in 0..a {
                        i.queues[inst].pop_front();
                    }
                    i.trace.push(Event::Hook { tid: t, point, a });
                });
            }
            _ => {
                let Some(t) = tid else { return };
                let bits = match point {
                    "worker.recv" => R_CHAN | R_IDLE,
                    "worker.evictable" => R_CACHE,
                    "worker.cb" => R_ACK,
                    "caller.send" => R_CHAN | R_IDLE,
                    "caller.join" => R_CHAN | R_IDLE,
                    // pure bookkeeping points: recorded, not scheduling points
                    // (done_seq is only read by wait_worker_idle, which the
                    // harness models by the WaitIdle gate; the non-flush
                    // request handlers gate at their own file-system calls)
                    "worker.evictable.locked" if LOCK_WINDOW.load(Ordering::Acquire) => R_CACHE,
                    "worker.done" | "worker.nonflush" | "worker.evictable.locked" => {
                        with_inner(|i| i.trace.push(Event::Hook { tid: t, point, a }));
                        return;
                    }
                    _ => 0,
                };
                let _ = gate(t, Pending { point: Point::Hook(point, a), res: Res::bits(bits), call: None });
                with_inner(|i| i.trace.push(Event::Hook { tid: t, point, a }));
                if point == "caller.join" && IMPATIENT.load(Ordering::Acquire) {
                    interpose::vclock_set(true);
                }
            }
        }
    }
}

/// Harness-level gate before an operation of a managed caller/reader thread.
pub fn op_gate(label: &str, g: OpGate, bits: u32) {
    let Some(tid) = interpose::managed_tid() else { return };
    let _ = gate(tid, Pending { point: Point::Op(label.to_string(), g), res: Res::bits(bits), call: None });
}

pub fn set_extra_bits(bits: u32) {
    if let Some(tid) = interpose::managed_tid() {
        with_inner(|i| i.slots[tid].extra_bits = bits);
    }
}

pub fn set_flag(bit: u32) {
    with_inner(|i| i.flags |= bit);
}

pub fn mark_sender_dropped(inst: usize) {
    with_inner(|i| {
        if inst < i.sender_dropped.len() {
            i.sender_dropped[inst] = true;
        }
    });
}

pub fn current_inst() -> usize {
    let tid = interpose::managed_tid().unwrap_or(0);
    with_inner(|i| i.slots[tid].inst).unwrap_or(0)
}

pub fn push_event(e: Event) {
    with_inner(|i| i.trace.push(e));
}

pub fn push_violation(v: crate::report::Violation) {
    with_inner(|i| i.violations.push(v));
}

// ---- scheduler side ----------------------------------------------------------

#[derive(Clone, Debug)]
pub struct Enabled {
    pub tid: usize,
    pub label: String,
    pub res: Res,
    pub fault: Fault,
    /// thread kind and fs call (for fault placement decisions)
    pub kind: ThreadKind,
    pub call_kind: Option<FsKind>,
    pub call_len: usize,
}

pub trait Chooser {
    /// `enabled` is in canonical order (ascending thread id, normal variant
    /// first). Returns the index of the transition to run, or None to stop
    /// exploring this execution (it is then drained with the first enabled).
    fn choose(&mut self, step: usize, enabled: &[Enabled]) -> Option<usize>;
    /// fault variants to offer for a pending fs call (besides Fault::None)
    fn fault_variants(&self, _kind: ThreadKind, _inst: usize, _call: &FsCall) -> Vec<Fault> {
        vec![]
    }
}

pub struct ExecResult {
    pub trace: Vec<Event>,
    pub steps: usize,
    pub deadlock: Option<String>,
    pub degraded: bool,
    pub violations: Vec<crate::report::Violation>,
    pub worker_failed: Vec<bool>,
    /// per step: labels of every parked thread's pending transition
    pub pendings: Vec<Vec<(usize, Pending)>>,
    /// per step: index into `trace` at the moment of the decision
    pub trace_pos: Vec<usize>,
    pub hung: Option<String>,
    pub unmanaged_fs: Vec<String>,
}

pub type ThreadBody = Box<dyn FnOnce() + Send + 'static>;

const PARK_TIMEOUT: Duration = Duration::from_secs(60);
static PARK_TIMEOUT_MS: std::sync::atomic::AtomicU64 = std::sync::atomic::AtomicU64::new(0);

/// Overrides the no-progress timeout (0 = default); used by explorations in
/// which a hang is a possible verdict rather than a machinery failure.
pub fn set_park_timeout(d: Option<Duration>) {
    PARK_TIMEOUT_MS.store(d.map(|d| d.as_millis() as u64).unwrap_or(0), Ordering::Release);
}

fn park_timeout() -> Duration {
    match PARK_TIMEOUT_MS.load(Ordering::Acquire) {
        0 => PARK_TIMEOUT,
        ms => Duration::from_millis(ms),
    }
}
const BLOCKED_AFTER: Duration = Duration::from_secs(3);

fn enabled_now(i: &Inner, ch: &dyn Chooser) -> Vec<Enabled> {
    let mut v = vec![];
    for (tid, s) in i.slots.iter().enumerate() {
        if s.state != TState::Parked {
            continue;
        }
        let Some(p) = &s.pending else { continue };
        let en = match &p.point {
            Point::Hook("worker.recv", _) => !i.queues[s.inst].is_empty() || i.sender_dropped[s.inst],
            // the request channel is bounded (sync_channel(1024)): a send on a full
            // channel blocks until the worker has taken something
            Point::Hook("caller.send", _) => i.queues[s.inst].len() < 1024,
            Point::Hook("caller.join", _) if IMPATIENT.load(Ordering::Acquire) => true,
            Point::Hook("caller.join", _) => match i.worker_of_inst.get(s.inst).copied().flatten() {
                None => true,
                Some(wt) => i.slots[wt].state == TState::Finished,
            },
            Point::Op(_, OpGate::Flag(bit)) => i.flags & bit != 0,
            Point::Op(_, OpGate::WaitAck(id)) => i.trace.iter().any(|e| matches!(e, Event::Ack(a) if a.id() == *id)),
            Point::Op(_, OpGate::WaitIdle(inst)) => match i.worker_of_inst.get(*inst).copied().flatten() {
                None => true,
                Some(wt) => {
                    let ws = &i.slots[wt];
                    ws.state == TState::Finished
                        || (ws.state == TState::Parked
                            && matches!(ws.pending.as_ref().map(|p| &p.point), Some(Point::Hook("worker.recv", _)))
                            && i.queues[*inst].is_empty())
                }
            },
            _ => true,
        };
        if !en {
            continue;
        }
        let mut res = p.res.clone();
        if let Point::Hook("worker.recv", _) = &p.point {
            // recv takes the head of the queue; if the head is a Write it also
            // drains the following Writes up to and including the first other
            // request. A send appends at the tail, so it only matters to this
            // recv if the drain would run off the end of the queue.
            let q = &i.queues[s.inst];
            let write = raft_log::verif_hooks::REQ_WRITE;
            let absorbs_tail = q.is_empty() || q.iter().all(|k| *k == write);
            if !absorbs_tail {
                res.bits &= !R_CHAN;
            }
        }
        res.bits = inst_bits(res.bits, s.inst);
        let base = Enabled {
            tid,
            label: p.label(),
            res,
            fault: Fault::None,
            kind: s.kind,
            call_kind: p.call.as_ref().map(|c| c.kind.clone()),
            call_len: p.call.as_ref().map(|c| c.len).unwrap_or(0),
        };
        v.push(base.clone());
        if let Some(c) = &p.call {
            for f in ch.fault_variants(s.kind, s.inst, c) {
                let mut e = base.clone();
                e.fault = f;
                e.label = format!("{}!{:?}", e.label, f);
                v.push(e);
            }
        }
    }
    v
}

/// Runs one execution: spawns the given managed threads; they schedule each
/// other (baton passing) until all have finished. This thread supervises:
/// it times out hangs and classifies threads blocked in the kernel.
pub fn run_execution(bodies: Vec<(ThreadKind, ThreadBody)>, chooser: &mut dyn Chooser) -> ExecResult {
    static INSTALL: std::sync::Once = std::sync::Once::new();
    INSTALL.call_once(|| raft_log::verif_hooks::install(Some(Arc::new(HookProbe))));

    // erase the borrow's lifetime; see ChooserPtr
    let chp = ChooserPtr(unsafe { std::mem::transmute::<*mut (dyn Chooser + '_), *mut (dyn Chooser + 'static)>(chooser as *mut dyn Chooser) });
    {
        let mut g = lock();
        let mut inner = Inner::default();
        for (kind, _) in &bodies {
            inner.slots.push(Slot {
                state: TState::Starting,
                kind: *kind,
                inst: 0,
                pending: None,
                grant: None,
                cv: Arc::new(Condvar::new()),
                extra_bits: 0,
                running_since: Instant::now(),
            });
        }
        inner.chooser = Some(chp);
        *g = Some(inner);
    }
    ACTIVE.store(true, Ordering::Release);
    let mut handles = vec![];
    for (tid, (_, body)) in bodies.into_iter().enumerate() {
        let h = std::thread::Builder::new()
            .name(format!("vx-managed-{}", tid))
            .spawn(move || {
                interpose::set_managed(Some(tid));
                with_inner(|i| {
                    i.slots[tid].state = TState::Running;
                    i.slots[tid].running_since = Instant::now();
                });
                let r = std::panic::catch_unwind(std::panic::AssertUnwindSafe(body));
                if let Err(p) = r {
                    let msg = crate::sut::panic_msg(p);
                    with_inner(|i| i.trace.push(Event::Note(format!("managed thread {} panicked: {}", tid, msg))));
                }
                interpose::set_managed(None);
                with_inner(|i| {
                    i.slots[tid].state = TState::Finished;
                    i.slots[tid].pending = None;
                    decide(i);
                });
                CV_SCHED.notify_all();
            })
            .expect("spawn managed thread");
        handles.push(h);
    }

    let mut hung = None;
    let mut g = lock();
    let mut last_steps = 0usize;
    let mut last_progress = Instant::now();
    loop {
        let inner = g.as_mut().unwrap();
        if inner.over {
            break;
        }
        if inner.steps != last_steps {
            last_steps = inner.steps;
            last_progress = Instant::now();
        }
        // kernel-blocked fallback: a thread that keeps running while everybody
        // else is parked is classified as blocked and the others carry on
        let now = Instant::now();
        let others_parked = !inner.slots.iter().any(|s| s.state == TState::Starting);
        let slow: Vec<usize> = inner
            .slots
            .iter()
            .enumerate()
            .filter(|(_, s)| s.state == TState::Running && now.duration_since(s.running_since) > blocked_after())
            .map(|(t, _)| t)
            .collect();
        let running = inner.slots.iter().filter(|s| s.state == TState::Running).count();
        // deferred decision: nobody running, grace period since the last park elapsed
        if inner.need_supervisor && running == 0 && others_parked {
            let quiet = inner.last_change.map(|t| now.duration_since(t) > if IMPATIENT.load(Ordering::Acquire) { Duration::from_millis(20) } else { Duration::from_millis(100) }).unwrap_or(true);
            if quiet {
                inner.need_supervisor = false;
                inner.supervisor_deciding = true;
                decide(inner);
                inner.supervisor_deciding = false;
                continue;
            }
            let (ng, _) = match CV_SCHED.wait_timeout(g, Duration::from_millis(5)) {
                Ok(x) => x,
                Err(p) => p.into_inner(),
            };
            g = ng;
            continue;
        }
        if others_parked && !slow.is_empty() && slow.len() == running {
            for t in slow {
                inner.slots[t].state = TState::Blocked;
                inner.degraded = true;
                inner.trace.push(Event::Note(format!("thread {} classified as blocked in the kernel", t)));
            }
            inner.supervisor_deciding = true;
            decide(inner);
            inner.supervisor_deciding = false;
            continue;
        }
        if last_progress.elapsed() > park_timeout() {
            hung = Some(format!(
                "no progress for {:?}; thread states {:?}",
                park_timeout(),
                inner.slots.iter().map(|s| (s.kind, s.state, s.pending.as_ref().map(|p| p.label()))).collect::<Vec<_>>()
            ));
            break;
        }
        let (ng, _) = match CV_SCHED.wait_timeout(g, Duration::from_millis(20)) {
            Ok(x) => x,
            Err(p) => p.into_inner(),
        };
        g = ng;
    }
    let inner = g.take().unwrap();
    drop(g);
    ACTIVE.store(false, Ordering::Release);
    if hung.is_none() && inner.deadlock.is_none() {
        for h in handles {
            let _ = h.join();
        }
    }
    ExecResult {
        trace: inner.trace,
        steps: inner.steps,
        deadlock: inner.deadlock,
        degraded: inner.degraded,
        violations: inner.violations,
        worker_failed: inner.worker_failed,
        pendings: inner.pendings,
        trace_pos: vec![],
        hung,
        unmanaged_fs: inner.unmanaged_fs,
    }
}

// ---------------------------------------------------------------------------
// Explorer: stateless depth-first search with sleep sets
// ---------------------------------------------------------------------------

#[derive(Clone, Debug)]
struct Frame {
    /// (tid, label) of every enabled transition, canonical order
    enabled: Vec<(usize, String, Res)>,
    chosen: usize,
    /// transitions (tid,label) asleep in this node
    sleep: Vec<(usize, String)>,
    /// indices already explored from this node (before `chosen`)
    done: Vec<usize>,
    /// preemptions spent before this node, and the thread that ran last
    pre: usize,
    last: Option<usize>,
}

#[derive(Default, Clone, Debug)]
pub struct ExploreStats {
    pub executions: u64,
    pub sleep_blocked: u64,
    pub complete: u64,
    pub max_steps: usize,
    pub faults_injected: u64,
}

pub struct Dfs {
    stack: Vec<Frame>,
    /// length of the prefix being replayed in the current execution
    replay_len: usize,
    pub stats: ExploreStats,
    pub max_faults: usize,
    faults_used: usize,
    pub fault_policy: FaultPolicy,
    pub blocked_now: bool,
    pub divergence: Option<String>,
    /// preemption bound (None = unbounded)
    pub preempt_bound: Option<usize>,
    last_tid: Option<usize>,
    preemptions: usize,
    /// replay mode: follow this schedule (then the first enabled transition),
    /// explore nothing else
    pub forced: Option<Vec<(usize, String)>>,
    /// inject faults only into threads of this store instance
    pub fault_inst: Option<usize>,
    /// sleep-set reduction on (default). Off for preemption-bounded passes:
    /// sleep sets assume the whole space is explored and would prune schedules
    /// that lie within the bound.
    pub use_sleep: bool,
}

#[derive(Clone, Copy, Debug, PartialEq, Eq)]
pub enum FaultPolicy {
    None,
    /// EIO on worker write/fdatasync
    WorkerEio,
    /// EIO + short write + EINTR on worker write/fdatasync
    WorkerAll,
    /// EIO on worker fdatasync only
    WorkerSyncEio,
    /// EIO on worker write/fdatasync/unlink
    WorkerEioUnlink,
}

impl Dfs {
    pub fn new(max_faults: usize, fault_policy: FaultPolicy) -> Self {
        Dfs {
            stack: vec![],
            replay_len: 0,
            stats: ExploreStats::default(),
            max_faults,
            faults_used: 0,
            fault_policy,
            blocked_now: false,
            divergence: None,
            preempt_bound: None,
            last_tid: None,
            preemptions: 0,
            forced: None,
            fault_inst: None,
            use_sleep: true,
        }
    }

    /// A Dfs that executes exactly one recorded schedule.
    pub fn replaying(schedule: Vec<(usize, String)>, max_faults: usize, fault_policy: FaultPolicy) -> Self {
        let mut d = Dfs::new(max_faults, fault_policy);
        d.forced = Some(schedule);
        d
    }

    pub fn begin_execution(&mut self) {
        self.replay_len = self.stack.len();
        self.faults_used = 0;
        self.blocked_now = false;
        self.last_tid = None;
        self.preemptions = 0;
        self.stats.executions += 1;
    }

    /// The schedule of the current/last execution as (tid, label) choices.
    pub fn schedule(&self) -> Vec<(usize, String)> {
        self.stack.iter().map(|f| (f.enabled[f.chosen].0, f.enabled[f.chosen].1.clone())).collect()
    }

    /// After an execution: advance to the next unexplored branch. Returns
    /// false when the search space is exhausted.
    pub fn next_branch(&mut self) -> bool {
        if self.blocked_now {
            self.stats.sleep_blocked += 1;
        } else {
            self.stats.complete += 1;
        }
        self.stats.max_steps = self.stats.max_steps.max(self.stack.len());
        if self.forced.is_some() {
            return false;
        }
        let bound = self.preempt_bound;
        let use_sleep = self.use_sleep;
        while let Some(top) = self.stack.last_mut() {
            let cur = top.chosen;
            top.done.push(cur);
            let (ctid, clabel) = (top.enabled[cur].0, top.enabled[cur].1.clone());
            // the transition just explored sleeps for its later siblings
            if use_sleep {
                top.sleep.push((ctid, clabel));
            }
            let mut next = None;
            for i in 0..top.enabled.len() {
                if top.done.contains(&i) {
                    continue;
                }
                let (t, l, _) = &top.enabled[i];
                if top.sleep.iter().any(|(st, sl)| st == t && sl == l) {
                    continue;
                }
                if let Some(b) = bound {
                    // switching away from a still-enabled thread costs one preemption
                    let cost = match top.last {
                        Some(lt) => (*t != lt && top.enabled.iter().any(|x| x.0 == lt)) as usize,
                        None => 0,
                    };
                    if top.pre + cost > b {
                        continue;
                    }
                }
                next = Some(i);
                break;
            }
            if let Some(i) = next {
                top.chosen = i;
                return true;
            }
            self.stack.pop();
        }
        false
    }
}

fn is_fault_label(l: &str) -> bool {
    l.contains('!')
}

impl Chooser for Dfs {
    fn fault_variants(&self, kind: ThreadKind, inst: usize, call: &FsCall) -> Vec<Fault> {
        if self.faults_used >= self.max_faults || kind != ThreadKind::Worker {
            return vec![];
        }
        if self.fault_inst.map(|i| i != inst).unwrap_or(false) {
            return vec![];
        }
        match (self.fault_policy, &call.kind) {
            (FaultPolicy::None, _) => vec![],
            (FaultPolicy::WorkerEio, FsKind::Write | FsKind::Fdatasync) => vec![Fault::Eio],
            (FaultPolicy::WorkerEioUnlink, FsKind::Write | FsKind::Fdatasync | FsKind::Unlink) => vec![Fault::Eio],
            (FaultPolicy::WorkerSyncEio, FsKind::Fdatasync) => vec![Fault::Eio],
            (FaultPolicy::WorkerAll, FsKind::Write) => {
                let mut v = vec![Fault::Eio, Fault::Eintr];
                if call.len > 1 {
                    v.push(Fault::Short(call.len / 2));
                }
                v
            }
            (FaultPolicy::WorkerAll, FsKind::Fdatasync) => vec![Fault::Eio, Fault::Eintr],
            _ => vec![],
        }
    }

    fn choose(&mut self, step: usize, enabled: &[Enabled]) -> Option<usize> {
        let cur: Vec<(usize, String, Res)> = enabled.iter().map(|e| (e.tid, e.label.clone(), e.res.clone())).collect();
        let idx;
        if step < self.replay_len {
            // replaying a stored prefix: the enabled set must be identical
            let f = &self.stack[step];
            let same = f.enabled.len() == cur.len() && f.enabled.iter().zip(cur.iter()).all(|(a, b)| a.0 == b.0 && a.1 == b.1);
            if !same {
                self.divergence = Some(format!(
                    "step {}: recorded enabled set {:?} != replayed {:?}",
                    step,
                    f.enabled.iter().map(|x| (x.0, x.1.clone())).collect::<Vec<_>>(),
                    cur.iter().map(|x| (x.0, x.1.clone())).collect::<Vec<_>>()
                ));
                return None;
            }
            idx = f.chosen;
        } else if let Some(f) = &self.forced {
            let i = match f.get(step) {
                Some((t, l)) => match cur.iter().position(|c| c.0 == *t && &c.1 == l) {
                    Some(i) => i,
                    None => {
                        self.divergence = Some(format!(
                            "recorded step {} ({}:{}) is not enabled on this tree; enabled: {:?}",
                            step,
                            t,
                            l,
                            cur.iter().map(|x| (x.0, x.1.clone())).collect::<Vec<_>>()
                        ));
                        return None;
                    }
                },
                None => 0,
            };
            self.stack.push(Frame { enabled: cur.clone(), chosen: i, sleep: vec![], done: vec![], pre: self.preemptions, last: self.last_tid });
            idx = i;
        } else {
            // new node: inherit the sleep set from the parent
            let sleep: Vec<(usize, String)> = match self.stack.last() {
                _ if !self.use_sleep => vec![],
                None => vec![],
                Some(parent) => {
                    let cres = &parent.enabled[parent.chosen].2;
                    let ctid = parent.enabled[parent.chosen].0;
                    parent
                        .sleep
                        .iter()
                        .filter(|(t, l)| {
                            if *t == ctid {
                                return false;
                            }
                            // still pending with the same label and independent of the executed transition
                            match parent.enabled.iter().find(|e| e.0 == *t && &e.1 == l) {
                                Some(e) => e.2.independent(cres) && cur.iter().any(|c| c.0 == *t && &c.1 == l),
                                None => false,
                            }
                        })
                        .cloned()
                        .collect()
                }
            };
            let mut pick = None;
            let mut order: Vec<usize> = (0..cur.len()).collect();
            if self.preempt_bound.is_some() {
                // under a preemption bound the default is to let the running thread go on
                // ... and otherwise caller, then worker(s), then the rest
                let lt = self.last_tid;
                let rank = |k: ThreadKind| match k {
                    ThreadKind::Caller => 0,
                    ThreadKind::Worker => 1,
                    _ => 2,
                };
                order.sort_by_key(|i| (Some(cur[*i].0) != lt, rank(enabled[*i].kind), cur[*i].0));
            }
            for i in order {
                let c = &cur[i];
                if sleep.iter().any(|(t, l)| *t == c.0 && l == &c.1) {
                    continue;
                }
                if let Some(b) = self.preempt_bound {
                    // switching away from a still-enabled thread costs one
                    if let Some(lt) = self.last_tid {
                        if c.0 != lt && cur.iter().any(|x| x.0 == lt) && self.preemptions >= b {
                            continue;
                        }
                    }
                }
                pick = Some(i);
                break;
            }
            let Some(i) = pick else {
                self.blocked_now = true;
                return None;
            };
            self.stack.push(Frame { enabled: cur.clone(), chosen: i, sleep, done: vec![], pre: self.preemptions, last: self.last_tid });
            idx = i;
        }
        let e = &enabled[idx];
        if is_fault_label(&e.label) {
            self.faults_used += 1;
            self.stats.faults_injected += 1;
        }
        if let Some(lt) = self.last_tid {
            if e.tid != lt && enabled.iter().any(|x| x.tid == lt) {
                self.preemptions += 1;
            }
        }
        self.last_tid = Some(e.tid);
        Some(idx)
    }
}

/// Replays a fixed schedule given as (tid,label) choices; after its end the
/// first enabled transition is taken.
pub struct Replay {
    pub schedule: Vec<(usize, String)>,
    pub divergence: Option<String>,
    pub max_faults: usize,
    pub fault_policy: FaultPolicy,
}

impl Chooser for Replay {
    fn fault_variants(&self, kind: ThreadKind, inst: usize, call: &FsCall) -> Vec<Fault> {
        let d = Dfs::new(self.max_faults, self.fault_policy);
        d.fault_variants(kind, inst, call)
    }
    fn choose(&mut self, step: usize, enabled: &[Enabled]) -> Option<usize> {
        if let Some((t, l)) = self.schedule.get(step) {
            match enabled.iter().position(|e| e.tid == *t && &e.label == l) {
                Some(i) => Some(i),
                None => {
                    self.divergence = Some(format!("step {}: {}:{} not enabled; enabled: {:?}", step, t, l, enabled.iter().map(|e| (e.tid, e.label.clone())).collect::<Vec<_>>()));
                    None
                }
            }
        } else {
            Some(0)
        }
    }
}

// ---------------------------------------------------------------------------
// Explorer self-tests (machinery only; run by `vx selftest`)
// ---------------------------------------------------------------------------

fn toy_gate(label: &'static str, res: Res) {
    let Some(tid) = interpose::managed_tid() else { return };
    let _ = gate(tid, Pending { point: Point::Op(label.to_string(), OpGate::Always), res, call: None });
}

/// Explores two toy threads with `n` steps each; `dependent` makes all steps
/// conflict. Returns (complete executions, sleep-blocked executions, lost
/// updates observed).
pub fn toy_explore(n: usize, dependent: bool, lost_update: bool) -> (u64, u64, u64) {
    use std::sync::atomic::AtomicU64;
    let mut dfs = Dfs::new(0, FaultPolicy::None);
    let mut lost = 0u64;
    loop {
        dfs.begin_execution();
        let shared = Arc::new(AtomicU64::new(0));
        let mk = |me: usize, shared: Arc<AtomicU64>| -> ThreadBody {
            Box::new(move || {
                for k in 0..n {
                    let res = if dependent { Res::bits(R_CACHE) } else { Res { bits: 0, files: vec![format!("f{}-{}", me, k)], files_r: vec![] } };
                    if lost_update {
                        toy_gate("load", Res::bits(R_DONE));
                        let v = shared.load(Ordering::SeqCst);
                        toy_gate("store", Res::bits(R_DONE));
                        shared.store(v + 1, Ordering::SeqCst);
                    } else {
                        toy_gate("step", res);
                    }
                }
            })
        };
        // Contender threads carry no implicit resources
        let r = run_execution(vec![(ThreadKind::Contender, mk(0, shared.clone())), (ThreadKind::Contender, mk(1, shared.clone()))], &mut dfs);
        assert!(r.deadlock.is_none() && r.hung.is_none(), "toy execution failed");
        if lost_update && !dfs.blocked_now && shared.load(Ordering::SeqCst) != 2 * n as u64 {
            lost += 1;
        }
        if !dfs.next_branch() {
            break;
        }
    }
    (dfs.stats.complete, dfs.stats.sleep_blocked, lost)
}
