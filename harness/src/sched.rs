//! Controlled scheduler (placeholder until schedx is wired in).

use crate::vt::AckEvent;

pub fn on_ack(_ev: &AckEvent) {}
