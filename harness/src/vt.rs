//! Concrete `Types` instantiation used by every engine, and the
//! acknowledgement-recording callback.

use std::io;
use std::sync::Arc;
use std::sync::Condvar;
use std::sync::Mutex;
use std::time::Duration;
use std::time::Instant;

use raft_log::Callback;
use raft_log::Types;

pub type LogId = (u64, u64); // (term, index)
pub type Vote = (u64, u64); // (term, node)

#[derive(Debug, Clone, PartialEq, Eq, Default)]
pub struct VT;

impl Types for VT {
    type LogId = LogId;
    type LogPayload = String;
    type Vote = Vote;
    type Callback = AckCb;
    type UserData = String;

    fn log_index(log_id: &Self::LogId) -> u64 {
        log_id.1
    }

    fn payload_size(payload: &Self::LogPayload) -> u64 {
        payload.len() as u64
    }
}

#[derive(Debug, Clone, PartialEq, Eq)]
pub enum AckEvent {
    /// callback `id` invoked; `ok` tells the reported result
    Sent { id: u64, ok: bool, err: Option<String> },
    /// callback `id` dropped without having been invoked
    Dropped { id: u64 },
}

impl AckEvent {
    pub fn id(&self) -> u64 {
        match self {
            AckEvent::Sent { id, .. } => *id,
            AckEvent::Dropped { id } => *id,
        }
    }
}

#[derive(Default)]
pub struct AckLog {
    pub events: Mutex<Vec<AckEvent>>,
    cv: Condvar,
}

impl AckLog {
    pub fn new() -> Arc<Self> {
        Arc::new(Self::default())
    }

    pub fn cb(self: &Arc<Self>, id: u64) -> AckCb {
        AckCb {
            id,
            log: self.clone(),
            sent: false,
        }
    }

    fn push(&self, ev: AckEvent) {
        crate::sched::on_ack(&ev);
        self.events.lock().unwrap().push(ev);
        self.cv.notify_all();
    }

    pub fn snapshot(&self) -> Vec<AckEvent> {
        self.events.lock().unwrap().clone()
    }

    /// Blocks (free-running engines only) until callback `id` is resolved.
    pub fn wait(&self, id: u64, timeout: Duration) -> Option<AckEvent> {
        let deadline = Instant::now() + timeout;
        let mut g = self.events.lock().unwrap();
        loop {
            if let Some(e) = g.iter().find(|e| e.id() == id) {
                return Some(e.clone());
            }
            let now = Instant::now();
            if now >= deadline {
                return None;
            }
            let (ng, _) = self.cv.wait_timeout(g, deadline - now).unwrap();
            g = ng;
        }
    }

    /// `wait`, with one more full period of grace before giving up: the clock is
    /// wall time, and a process that was stopped (or a machine that stalled) for
    /// longer than the timeout must not turn into a verdict.
    pub fn wait_patiently(&self, id: u64, timeout: Duration) -> Option<AckEvent> {
        self.wait(id, timeout).or_else(|| self.wait(id, timeout))
    }

    pub fn get(&self, id: u64) -> Option<AckEvent> {
        self.events.lock().unwrap().iter().find(|e| e.id() == id).cloned()
    }
}

pub struct AckCb {
    pub id: u64,
    log: Arc<AckLog>,
    sent: bool,
}

impl Callback for AckCb {
    fn send(mut self, res: Result<(), io::Error>) {
        self.sent = true;
        let ev = match res {
            Ok(()) => AckEvent::Sent {
                id: self.id,
                ok: true,
                err: None,
            },
            Err(e) => AckEvent::Sent {
                id: self.id,
                ok: false,
                err: Some(format!("{:?}: {}", e.kind(), e)),
            },
        };
        self.log.push(ev);
    }
}

impl Drop for AckCb {
    fn drop(&mut self) {
        if !self.sent {
            self.log.push(AckEvent::Dropped { id: self.id });
        }
    }
}
