//! State-relative operation alphabets. Every symbol is generated from the
//! current model state so that a dozen symbols hit the boundary cases at
//! every state (simplest first, so the first counterexample is the shortest).

use crate::model::next_index;
use crate::model::Op;
use crate::model::RefLog;
use crate::vt::LogId;

pub fn payload(id: LogId, class: u8) -> String {
    match class {
        0 => format!("p{}-{}", id.0, id.1),
        1 => String::new(),
        c => {
            // 2: larger than the 1 KiB read block is not needed for the record
            // scan (300 bytes); 3: two of them straddle any 64 KiB block
            // 4: one record larger than 64 KiB
            let n = match c {
                3 => 40_000,
                4 => 70_000,
                // 5: one write request above 1 MiB
                5 => (1 << 20) + 1,
                // 6, 7: MiB-scale entries (torn-tail and batch-size limits)
                6 => 12 << 20,
                7 => 17 << 20,
                _ => 300,
            };
            let unit = format!("<{}:{}>", id.0, id.1);
            let mut s = String::with_capacity(n + 16);
            while s.len() < n {
                s.push_str(&unit);
            }
            s.truncate(n);
            s
        }
    }
}

fn ent(id: LogId, class: u8) -> (LogId, String) {
    (id, payload(id, class))
}

#[derive(Clone, Copy, Debug, PartialEq, Eq)]
pub enum Alpha {
    /// full legal alphabet of C01
    Legal,
    /// reduced legal alphabet (core symbols) for deeper searches
    Core,
    /// tiny alphabet used to reach states for argument grids
    Tiny,
    /// core alphabet + bulk appends (40 and 130 entries in ONE call): a few
    /// operations then reach dozens of rotations, purges of dozens of chunks and
    /// caches holding more than a hundred entries — the counts small constants in
    /// the code (32, 64, 128) are compared with
    Scale,
    /// core alphabet + the 40-entry bulk append (for small chunk limits)
    ScaleSmall,
    /// core alphabet + the 130-entry bulk append (for chunk limits in the hundreds)
    ScaleBig,
}

/// Legal (accepted) operations at this model state.
pub fn legal(m: &RefLog, which: Alpha) -> Vec<(&'static str, Op)> {
    let mut v: Vec<(&'static str, Op)> = vec![];
    let st = &m.st;
    let last = st.last;
    let term = last.map(|l| l.0).unwrap_or(1);
    let next = next_index(last.as_ref());
    let first_live = m.entries.keys().next().copied();
    let full = which == Alpha::Legal;
    let core = which != Alpha::Tiny;
    if matches!(which, Alpha::Scale | Alpha::ScaleSmall | Alpha::ScaleBig) {
        let bulks: &[(&'static str, u64)] = match which {
            Alpha::ScaleSmall => &[("append_bulk40", 40)],
            Alpha::ScaleBig => &[("append_bulk130", 130)],
            _ => &[("append_bulk40", 40), ("append_bulk130", 130)],
        };
        for (name, n) in bulks.iter().copied() {
            let t = last.map(|l| l.0).unwrap_or(1);
            let first = next_index(last.as_ref());
            v.push((name, Op::Append((0..n).map(|k| ent((t, first + k), 0)).collect())));
        }
    }

    // appends
    v.push(("append", Op::Append(vec![ent((term, next), 0)])));
    if core {
        v.push(("append_t+1", Op::Append(vec![ent((term + 1, next), 0)])));
        v.push(("append_t+2", Op::Append(vec![ent((term + 2, next), 0)])));
    }
    if full {
        if last.is_none() {
            v.push(("append_first_at_5", Op::Append(vec![ent((term, 5), 0)])));
        }
        v.push((
            "append_batch2",
            Op::Append(vec![ent((term, next), 0), ent((term + 1, next + 1), 0)]),
        ));
        v.push(("append_empty", Op::Append(vec![ent((term, next), 1)])));
        v.push(("append_big", Op::Append(vec![ent((term, next), 2)])));
        v.push(("append_huge", Op::Append(vec![ent((term, next), 3)])));
    }

    // truncations
    if let Some(l) = last {
        if m.entries.contains_key(&l.1) {
            v.push(("truncate_last", Op::Truncate(l.1)));
        }
    }
    if core {
        if let Some(f) = first_live {
            v.push(("truncate_first+1", Op::Truncate(f + 1)));
        }
        v.push(("truncate_purged+1", Op::Truncate(next_index(st.purged.as_ref()))));
    }
    if full {
        v.push(("truncate_last+1", Op::Truncate(next)));
    }

    // purges
    if let Some(f) = first_live {
        v.push(("purge_first", Op::Purge(m.entries[&f].0)));
    }
    if core {
        if let Some(l) = last {
            if let Some((id, _)) = m.entries.get(&l.1) {
                v.push(("purge_last", Op::Purge(*id)));
            }
        }
        v.push(("purge_beyond", Op::Purge((term, next + 2))));
    }
    if full {
        if let (Some(f), Some(l)) = (first_live, last) {
            let mid = f + (l.1 - f) / 2;
            if let Some((id, _)) = m.entries.get(&mid) {
                v.push(("purge_mid", Op::Purge(*id)));
            }
        }
        if let Some(p) = st.purged {
            v.push(("purge_noop", Op::Purge(p)));
        }
    }

    // vote
    let vt = st.vote.map(|x| x.0).unwrap_or(0);
    v.push(("vote_up", Op::Vote((vt + 1, 1))));
    if full {
        if let Some(x) = st.vote {
            v.push(("vote_same", Op::Vote(x)));
        }
    }

    // commit
    if core {
        if let Some(l) = last {
            v.push(("commit_last", Op::Commit(l)));
        }
    }
    if full {
        if let (Some(f), Some(l)) = (first_live, last) {
            let mid = f + (l.1 - f) / 2;
            if let Some((id, _)) = m.entries.get(&mid) {
                v.push(("commit_mid", Op::Commit(*id)));
            }
        }
    }

    // user data
    if core {
        let n = st.user_data.as_ref().map(|s| s.len()).unwrap_or(0);
        v.push(("user_data", Op::UserData(Some(format!("u{}", n + 1)))));
    }
    if full && st.user_data.is_some() {
        v.push(("user_data_none", Op::UserData(None)));
    }

    // flush
    if core {
        v.push(("flush", Op::Flush));
    }

    dedup_filter(m, v, true)
}

/// Operations the sequential specification refuses at this state.
/// `level`: see `SeqSpec::refused_level`.
pub fn refused(m: &RefLog, level: u8) -> Vec<(&'static str, Op)> {
    let mut v: Vec<(&'static str, Op)> = vec![];
    let st = &m.st;
    if let Some((t, n)) = st.vote {
        if t > 0 {
            v.push(("vote_lower_term", Op::Vote((t - 1, n))));
        }
        if n > 0 {
            v.push(("vote_lower_node", Op::Vote((t, n - 1))));
        }
    }
    if let Some(l) = st.last {
        v.push(("append_eq_last", Op::Append(vec![((l.0, l.1), "XX".to_string())])));
        if l.0 > 0 {
            v.push((
                "append_lower_term_same_index",
                Op::Append(vec![((l.0 - 1, l.1), "XX".to_string())]),
            ));
            v.push((
                "append_lower_term_next_index",
                Op::Append(vec![((l.0 - 1, l.1 + 1), "XX".to_string())]),
            ));
        }
        v.push((
            "append_gap",
            Op::Append(vec![((l.0, l.1 + 2), "XX".to_string())]),
        ));
        if l.1 > 0 {
            v.push((
                "append_prev_index_higher_term",
                Op::Append(vec![((l.0 + 1, l.1 - 1), "XX".to_string())]),
            ));
        }
        v.push((
            "append_same_index_higher_term",
            Op::Append(vec![((l.0 + 1, l.1), "XX".to_string())]),
        ));
        v.push((
            "append_batch_first_refused",
            Op::Append(vec![
                ((l.0, l.1), "XX".to_string()),
                ((l.0, l.1 + 1), "YY".to_string()),
            ]),
        ));
    }
    // batches whose FIRST entry is accepted and whose second is refused: the
    // call returns Err, the first entry stays (also on a log whose last is None)
    if level >= 1 {
        let extended = level >= 2;
        let t = st.last.map(|l| l.0).unwrap_or(1);
        let n = next_index(st.last.as_ref());
        let e = |id: LogId, p: &str| (id, p.to_string());
        v.push(("append_batch_second_gap", Op::Append(vec![e((t, n), "ok"), e((t, n + 2), "XX")])));
        v.push(("append_batch_second_lower_term", Op::Append(vec![e((t + 1, n), "ok"), e((t, n + 1), "XX")])));
        if extended {
            v.push(("append_batch_second_same_id", Op::Append(vec![e((t, n), "ok"), e((t, n), "XX")])));
            v.push(("append_batch_third_gap", Op::Append(vec![e((t, n), "ok"), e((t, n + 1), "ok"), e((t, n + 3), "XX")])));
        }
        if st.last.is_none() {
            v.push(("append_batch_first_at_5_second_gap", Op::Append(vec![e((t, 5), "ok"), e((t, 7), "XX")])));
        }
        // long batches (300 and 1100 entries) with a lower-term entry in the middle:
        // everything before it stays, the call returns Err
        if level >= 3 || (extended && st.last.is_none()) {
            for (name, len) in [("append_bulk300_reversal_mid", 300u64), ("append_bulk1100_reversal_mid", 1100u64)] {
                let mut es: Vec<(LogId, String)> = (0..len).map(|k| e((t + 1, n + k), "ok")).collect();
                let mid = (len / 2) as usize;
                es[mid] = e((t, n + mid as u64), "XX");
                v.push((name, Op::Append(es)));
            }
        }
    }
    if let Some(c) = st.committed {
        if c.1 > 0 {
            v.push(("commit_lower", Op::Commit((c.0, c.1 - 1))));
        }
        if c.0 > 0 {
            v.push(("commit_lower_term", Op::Commit((c.0 - 1, c.1))));
        }
    }
    let next = next_index(st.last.as_ref());
    v.push(("truncate_last+2", Op::Truncate(next + 1)));
    v.push(("truncate_far", Op::Truncate(next + 1000)));
    if let Some(p) = st.purged {
        if p.1 > 0 {
            v.push(("truncate_at_purged", Op::Truncate(p.1)));
        }
        if p.1 > 1 {
            v.push(("truncate_below_purged", Op::Truncate(p.1 - 1)));
        }
    }
    dedup_filter(m, v, false)
}

fn dedup_filter(
    m: &RefLog,
    v: Vec<(&'static str, Op)>,
    want_accept: bool,
) -> Vec<(&'static str, Op)> {
    let mut out: Vec<(&'static str, Op)> = vec![];
    for (n, op) in v {
        if m.accepts(&op) != want_accept {
            continue;
        }
        if out.iter().any(|(_, o)| *o == op) {
            continue;
        }
        out.push((n, op));
    }
    out
}
