//! Verdict protocol: violations, known findings, replay files, evidence.

use std::collections::BTreeMap;
use std::sync::Mutex;
use std::time::Instant;

use serde_json::json;
use serde_json::Value;

/// Root of the verification tree (set by ./check to its own directory, so a
/// snapshot run writes its evidence into the snapshot).
pub fn verif_root() -> String {
    std::env::var("VX_VERIF_ROOT").unwrap_or_else(|_| "/verif".to_string())
}

#[derive(Clone, Debug)]
pub struct Violation {
    pub prop: String,
    /// failing case class by mechanism (matched against known_findings.json)
    pub key: String,
    pub what: String,
    /// everything needed to re-execute the case
    pub replay: Value,
}

#[derive(Clone, Debug)]
pub struct Known {
    pub property: String,
    pub key: String,
    pub status: String,
    pub what: String,
}

pub fn load_known() -> Vec<Known> {
    let p = format!("{}/known_findings.json", verif_root());
    let Ok(s) = std::fs::read_to_string(&p) else {
        return vec![];
    };
    let v: Value = serde_json::from_str(&s).expect("known_findings.json must parse");
    let mut out = vec![];
    for f in v["findings"].as_array().cloned().unwrap_or_default() {
        out.push(Known {
            property: f["property"].as_str().unwrap_or("").to_string(),
            key: f["key"].as_str().unwrap_or("").to_string(),
            status: f["status"].as_str().unwrap_or("").to_string(),
            what: f["what"].as_str().unwrap_or("").to_string(),
        });
    }
    out
}

#[derive(Default)]
struct Inner {
    violations: BTreeMap<String, (u64, Violation)>,
    known_hits: BTreeMap<String, (u64, String)>,
}

pub struct Reporter {
    pub prop: String,
    pub tier: String,
    pub seed: i64,
    known: Vec<Known>,
    inner: Mutex<Inner>,
    pub started: Instant,
}

impl Reporter {
    pub fn new(prop: &str, tier: &str) -> Self {
        let seed = std::env::var("VERIF_SEED").ok().and_then(|s| s.parse().ok()).unwrap_or(0);
        Reporter {
            prop: prop.to_string(),
            tier: tier.to_string(),
            seed,
            known: load_known(),
            inner: Mutex::new(Inner::default()),
            started: Instant::now(),
        }
    }

    /// Records a violation (deduplicated by mechanism key).
    pub fn report(&self, mut v: Violation) {
        debug_assert_eq!(v.prop, self.prop);
        v.what = clip(&v.what, 1800);
        let mut g = self.inner.lock().unwrap();
        let is_known = self
            .known
            .iter()
            .any(|k| k.status == "known" && k.property == v.prop && k.key == v.key);
        if is_known {
            let e = g.known_hits.entry(v.key.clone()).or_insert((0, v.what.clone()));
            e.0 += 1;
        } else {
            let e = g.violations.entry(v.key.clone()).or_insert((0, v.clone()));
            e.0 += 1;
            // keep the shortest replay as the representative
            if v.replay.to_string().len() < e.1.replay.to_string().len() {
                e.1 = v;
            }
        }
    }

    /// (key, what) of every violation class recorded so far, known or not
    pub fn classes(&self) -> Vec<(String, String, bool)> {
        let g = self.inner.lock().unwrap();
        let mut v: Vec<(String, String, bool)> = g.violations.iter().map(|(k, (_, x))| (k.clone(), x.what.clone(), false)).collect();
        v.extend(g.known_hits.iter().map(|(k, (_, w))| (k.clone(), w.clone(), true)));
        v
    }

    pub fn violation_count(&self) -> u64 {
        self.inner.lock().unwrap().violations.values().map(|v| v.0).sum()
    }

    pub fn distinct_violations(&self) -> usize {
        self.inner.lock().unwrap().violations.len()
    }

    /// Writes the evidence file, prints verdict lines and returns the exit
    /// code (0 held / 1 violation).
    pub fn finish(&self, level: &str, mut coverage: Value, assumptions: Vec<String>) -> i32 {
        let g = self.inner.lock().unwrap();
        let wall = self.started.elapsed().as_secs_f64();
        let mut known_list = vec![];
        for (k, (n, what)) in &g.known_hits {
            let what_known =
                self.known.iter().find(|x| &x.key == k && x.property == self.prop).map(|x| x.what.clone());
            println!(
                "KNOWN-FINDING: property={} key={} cases={} {}",
                self.prop,
                k,
                n,
                what_known.unwrap_or_else(|| what.clone())
            );
            known_list.push(json!({"key": k, "cases": n, "example": what}));
        }
        let mut vio_list = vec![];
        let mut code = 0;
        for (k, (n, v)) in &g.violations {
            let h = fxhash(&format!("{}{}", k, v.replay));
            let path = format!("{}/replays/{}-{:016x}.json", verif_root(), self.prop, h);
            let _ = std::fs::create_dir_all(format!("{}/replays", verif_root()));
            let body = json!({
                "property": self.prop,
                "key": k,
                "what": v.what,
                "cases_with_this_key": n,
                "replay": v.replay,
            });
            let _ = std::fs::write(&path, serde_json::to_string_pretty(&body).unwrap());
            println!("VIOLATION property={} replay={}", self.prop, path);
            println!("  key={} cases={} what={}", k, n, v.what);
            vio_list.push(json!({"key": k, "cases": n, "what": v.what, "replay": path}));
            code = 1;
        }
        if let Some(o) = coverage.as_object_mut() {
            o.insert("known_findings_hit".to_string(), json!(known_list));
            o.insert("violation_classes".to_string(), json!(vio_list));
        }
        let ev = json!({
            "property_id": self.prop,
            "tier": self.tier,
            "seed": self.seed,
            "level": level,
            "coverage": coverage,
            "assumptions": assumptions,
            "wall_s": wall,
            "violations": g.violations.values().map(|v| v.0).sum::<u64>(),
        });
        let _ = std::fs::create_dir_all(format!("{}/evidence", verif_root()));
        let path = format!("{}/evidence/{}.json", verif_root(), self.prop);
        std::fs::write(&path, serde_json::to_string_pretty(&ev).unwrap()).expect("write evidence");
        if code == 0 {
            println!(
                "HELD property={} tier={} wall_s={:.1} evidence={}",
                self.prop, self.tier, wall, path
            );
        }
        code
    }
}

/// Shortens a description that quotes large payloads (the replay file keeps
/// everything needed to re-execute the case).
pub fn clip(s: &str, max: usize) -> String {
    if s.len() <= max {
        return s.to_string();
    }
    let head_end = s.char_indices().map(|(i, _)| i).take_while(|i| *i <= max * 6 / 10).last().unwrap_or(0);
    let tail_start = s.char_indices().map(|(i, _)| i).find(|i| *i >= s.len() - max * 3 / 10).unwrap_or(s.len());
    format!("{} ...[{} bytes omitted]... {}", &s[..head_end], tail_start - head_end, &s[tail_start..])
}

pub fn fxhash(s: &str) -> u64 {
    hash_bytes(s.as_bytes())
}

/// FNV-1a 64 (stable across runs, unlike std's SipHash with random keys)
pub fn hash_bytes(b: &[u8]) -> u64 {
    let mut h: u64 = 0xcbf29ce484222325;
    for x in b {
        h ^= *x as u64;
        h = h.wrapping_mul(0x100000001b3);
    }
    h
}

#[derive(Default, Clone)]
pub struct Fnv(pub u64);

impl Fnv {
    pub fn new() -> Self {
        Fnv(0xcbf29ce484222325)
    }
    pub fn add(&mut self, b: &[u8]) {
        for x in b {
            self.0 ^= *x as u64;
            self.0 = self.0.wrapping_mul(0x100000001b3);
        }
        // separator
        self.0 ^= 0xff;
        self.0 = self.0.wrapping_mul(0x100000001b3);
    }
    pub fn add_str(&mut self, s: &str) {
        self.add(s.as_bytes())
    }
    pub fn add_u64(&mut self, v: u64) {
        self.add(&v.to_be_bytes())
    }
}
