#![allow(dead_code)]
mod alphabet;
mod c14;
mod checks;
mod codecx;
mod enc;
mod imagex;
mod interpose;
mod lockfine;
mod lockx;
mod model;
mod names;
mod probes;
mod readers;
mod report;
mod sched;
mod schedx;
mod shadow;
mod seqx;
mod sut;
mod vt;

fn main() {
    // panics of the subject are caught and classified; keep stderr quiet
    if std::env::var("VX_PANIC_TRACE").is_err() {
        std::panic::set_hook(Box::new(|_| {}));
    }
    let args: Vec<String> = std::env::args().collect();
    let code = match args.get(1).map(|s| s.as_str()) {
        Some("check") => {
            let prop = args.get(2).expect("property id");
            let tier = args.get(3).map(|s| s.as_str()).unwrap_or("quick");
            checks::run_check(prop, tier)
        }
        Some("seqx-worker") => checks::seq_worker(&args[2], &args[3], args[4].parse().unwrap()),
        Some("lock-contender") => lockx::contender_main(&args[2]),
        Some("schedx-shard") => checks::sched_shard(&args[2], &args[3], args[4].parse().unwrap(), args[5].parse().unwrap()),
        Some("selftest") => checks::selftest(),
        Some("replay") => checks::replay(args.get(2).expect("replay file")),
        _ => {
            eprintln!("usage: vx check <ID> <quick|thorough> | vx replay <file>");
            2
        }
    };
    sut::cleanup_scratch_root();
    std::process::exit(code);
}
