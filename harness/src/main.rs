#![allow(dead_code)]
mod alphabet;
mod c14;
mod checks;
mod codecx;
mod enc;
mod imagex;
mod interpose;
mod lockfine;
mod lockx;
mod model;
mod names;
mod probes;
mod readers;
mod report;
mod sched;
mod schedx;
mod shadow;
mod seqx;
mod sut;
mod vt;

/// A `log` backend that formats every record and throws the text away: with
/// no backend installed the `log` macros do not even evaluate their arguments,
/// so code inside `info!(...)`/`debug!(...)` argument lists would never run
/// under the checks. (Formatting also runs the Display/Debug impls of what is
/// logged.)
struct EvalLogger;

impl log::Log for EvalLogger {
    fn enabled(&self, _: &log::Metadata) -> bool {
        true
    }
    fn log(&self, record: &log::Record) {
        use std::fmt::Write;
        struct Sink;
        impl Write for Sink {
            fn write_str(&mut self, _: &str) -> std::fmt::Result {
                Ok(())
            }
        }
        let _ = write!(Sink, "{}", record.args());
    }
    fn flush(&self) {}
}

static EVAL_LOGGER: EvalLogger = EvalLogger;

fn main() {
    if std::env::var("VX_NO_LOGGER").is_err() {
        let _ = log::set_logger(&EVAL_LOGGER);
        log::set_max_level(log::LevelFilter::Trace);
    }
    // panics of the subject are caught and classified; keep stderr quiet
    if std::env::var("VX_PANIC_TRACE").is_err() {
        std::panic::set_hook(Box::new(|_| {}));
    }
    let args: Vec<String> = std::env::args().collect();
    let code = match args.get(1).map(|s| s.as_str()) {
        Some("check") => {
            let prop = args.get(2).expect("property id");
            let tier = args.get(3).map(|s| s.as_str()).unwrap_or("quick");
            checks::run_check(prop, tier)
        }
        Some("seqx-worker") => checks::seq_worker(&args[2], &args[3], args[4].parse().unwrap()),
        Some("lock-contender") => lockx::contender_main(&args[2]),
        Some("schedx-shard") => checks::sched_shard(&args[2], &args[3], args[4].parse().unwrap(), args[5].parse().unwrap()),
        Some("selftest") => checks::selftest(),
        Some("replay") => checks::replay(args.get(2).expect("replay file")),
        _ => {
            eprintln!("usage: vx check <ID> <quick|thorough> | vx replay <file>");
            2
        }
    };
    sut::cleanup_scratch_root();
    std::process::exit(code);
}
