//! Reference model: a plain in-memory Raft log plus the predicted journal
//! layout (which record lands in which chunk file at which offset).

use std::collections::BTreeMap;

use crate::enc;
use crate::enc::MRec;
use crate::enc::MState;
use crate::vt::LogId;
use crate::vt::Vote;

#[derive(Clone, Debug, PartialEq, Eq, Hash)]
pub enum Op {
    Vote(Vote),
    Append(Vec<(LogId, String)>),
    Truncate(u64),
    Purge(LogId),
    Commit(LogId),
    UserData(Option<String>),
    /// flush (free-running engines: and wait for the acknowledgement and an
    /// idle worker)
    Flush,
    /// flush, wait ack, wait idle, drop, open with configuration index `n`
    Reopen(usize),
}

impl Op {
    pub fn short(&self) -> String {
        match self {
            Op::Vote(v) => format!("vote{:?}", v),
            Op::Append(es) => {
                let v: Vec<String> = es
                    .iter()
                    .map(|(id, p)| format!("({},{})[{}]", id.0, id.1, p.len()))
                    .collect();
                format!("append{}", v.join(""))
            }
            Op::Truncate(i) => format!("truncate({})", i),
            Op::Purge(id) => format!("purge{:?}", id),
            Op::Commit(id) => format!("commit{:?}", id),
            Op::UserData(u) => format!("user_data({:?})", u),
            Op::Flush => "flush".to_string(),
            Op::Reopen(n) => format!("reopen(cfg{})", n),
        }
    }

    pub fn is_write(&self) -> bool {
        !matches!(self, Op::Flush | Op::Reopen(_))
    }
}

pub fn hist_short(h: &[Op]) -> String {
    h.iter().map(|o| o.short()).collect::<Vec<_>>().join("; ")
}

/// Result of applying an operation to the reference model.
#[derive(Clone, Debug, PartialEq, Eq)]
pub struct Applied {
    /// `true` iff the sequential specification accepts the call
    pub ok: bool,
    /// records an exact journal contains for this call, in order
    pub recs: Vec<MRec>,
}

#[derive(Clone, Debug, PartialEq, Eq, Hash, Default)]
pub struct RefLog {
    pub st: MState,
    pub entries: BTreeMap<u64, (LogId, String)>,
}

pub fn next_index(id: Option<&LogId>) -> u64 {
    match id {
        Some(id) => id.1 + 1,
        None => 0,
    }
}

impl RefLog {
    pub fn new() -> Self {
        Self::default()
    }

    /// Would the specification accept this single write? (no mutation)
    pub fn accepts(&self, op: &Op) -> bool {
        let mut c = self.clone();
        c.apply(op).ok
    }

    pub fn apply(&mut self, op: &Op) -> Applied {
        match op {
            Op::Vote(v) => {
                if Some(*v) >= self.st.vote {
                    self.st.vote = Some(*v);
                    Applied {
                        ok: true,
                        recs: vec![MRec::Vote(*v)],
                    }
                } else {
                    Applied {
                        ok: false,
                        recs: vec![],
                    }
                }
            }
            Op::Append(es) => {
                let mut recs = vec![];
                for (id, p) in es {
                    if !self.append_one(*id, p) {
                        return Applied { ok: false, recs };
                    }
                    recs.push(MRec::Append(*id, p.clone()));
                }
                Applied { ok: true, recs }
            }
            Op::Truncate(i) => {
                let keep = if *i == next_index(self.st.purged.as_ref()) {
                    self.st.purged
                } else if *i > 0 {
                    match self.entries.get(&(*i - 1)) {
                        Some((id, _)) => Some(*id),
                        None => {
                            return Applied {
                                ok: false,
                                recs: vec![],
                            }
                        }
                    }
                } else {
                    return Applied {
                        ok: false,
                        recs: vec![],
                    };
                };
                let idx = next_index(keep.as_ref());
                self.entries.split_off(&idx);
                if self.st.last > keep {
                    self.st.last = keep;
                }
                Applied {
                    ok: true,
                    recs: vec![MRec::TruncateAfter(keep)],
                }
            }
            Op::Purge(u) => {
                if u.1 < next_index(self.st.purged.as_ref()) {
                    return Applied {
                        ok: true,
                        recs: vec![],
                    };
                }
                let rest = self.entries.split_off(&(u.1 + 1));
                self.entries = rest;
                if self.st.purged < Some(*u) {
                    self.st.purged = Some(*u);
                }
                if Some(*u) > self.st.last {
                    self.st.last = Some(*u);
                }
                Applied {
                    ok: true,
                    recs: vec![MRec::PurgeUpto(*u)],
                }
            }
            Op::Commit(id) => {
                if Some(*id) < self.st.committed {
                    Applied {
                        ok: false,
                        recs: vec![],
                    }
                } else {
                    self.st.committed = Some(*id);
                    Applied {
                        ok: true,
                        recs: vec![MRec::Commit(*id)],
                    }
                }
            }
            Op::UserData(u) => {
                self.st.user_data = u.clone();
                Applied {
                    ok: true,
                    recs: vec![MRec::State(self.st.clone())],
                }
            }
            Op::Flush | Op::Reopen(_) => Applied {
                ok: true,
                recs: vec![],
            },
        }
    }

    fn append_one(&mut self, id: LogId, p: &str) -> bool {
        if Some(id) <= self.st.last {
            return false;
        }
        if let Some(last) = self.st.last {
            if last.1.checked_add(1) != Some(id.1) {
                return false;
            }
        }
        self.entries.insert(id.1, (id, p.to_string()));
        self.st.last = Some(id);
        true
    }

    pub fn read(&self, from: u64, to: u64) -> Vec<(LogId, String)> {
        if from >= to {
            return vec![];
        }
        self.entries.range(from..to).map(|(_, v)| v.clone()).collect()
    }

    pub fn all(&self) -> Vec<(LogId, String)> {
        self.entries.values().cloned().collect()
    }

    /// Applies one journal record (used to compute the state a journal
    /// prefix denotes). Records are assumed to come from accepted writes.
    pub fn replay(&mut self, r: &MRec) {
        match r {
            MRec::Vote(v) => self.st.vote = Some(*v),
            MRec::Append(id, p) => {
                self.entries.insert(id.1, (*id, p.clone()));
                self.st.last = Some(*id);
            }
            MRec::Commit(id) => self.st.committed = Some(*id),
            MRec::TruncateAfter(keep) => {
                let idx = next_index(keep.as_ref());
                self.entries.split_off(&idx);
                if self.st.last > *keep {
                    self.st.last = *keep;
                }
            }
            MRec::PurgeUpto(u) => {
                let rest = self.entries.split_off(&(u.1 + 1));
                self.entries = rest;
                if self.st.purged < Some(*u) {
                    self.st.purged = Some(*u);
                }
                if Some(*u) > self.st.last {
                    self.st.last = Some(*u);
                }
            }
            MRec::State(s) => self.st = s.clone(),
        }
    }
}

// ---------------------------------------------------------------------------
// Journal layout prediction
// ---------------------------------------------------------------------------

#[derive(Clone, Debug, PartialEq, Eq, Hash)]
pub struct MChunk {
    pub start: u64,
    pub recs: Vec<MRec>,
    pub lens: Vec<u64>,
    /// `last` of the log state at the moment the chunk was closed
    pub closing_last: Option<LogId>,
    pub closed: bool,
}

impl MChunk {
    pub fn size(&self) -> u64 {
        self.lens.iter().sum()
    }
    pub fn end(&self) -> u64 {
        self.start + self.size()
    }
    pub fn bytes(&self) -> Vec<u8> {
        let mut b = vec![];
        for r in &self.recs {
            b.extend_from_slice(&enc::encode(r));
        }
        b
    }
    /// global offset of record `i`
    pub fn rec_start(&self, i: usize) -> u64 {
        self.start + self.lens[..i].iter().sum::<u64>()
    }
}

#[derive(Clone, Copy, Debug, PartialEq, Eq, Hash)]
pub struct Limits {
    pub max_records: usize,
    pub max_size: usize,
}

#[derive(Clone, Copy, Debug, PartialEq, Eq, Hash)]
pub struct Placed {
    pub chunk_start: u64,
    pub offset: u64,
    pub len: u64,
    pub rotated: bool,
}

#[derive(Clone, Debug, PartialEq, Eq, Hash)]
pub struct Journal {
    /// retained chunks, oldest first; the last one is the open chunk
    pub chunks: Vec<MChunk>,
    /// chunk starts scheduled for deletion at the next flush
    pub pending_removal: Vec<u64>,
    /// chunk starts that have been deleted
    pub removed: Vec<u64>,
    pub limits: Limits,
    /// eviction boundary the protocol has in force under the eager worker
    /// policy (see `on_sync`): the `last` at the rotation before the latest one
    /// until a flush, then the `last` at the latest rotation
    pub boundary_effective: Option<LogId>,
    pub boundary_latest: Option<LogId>,
}

impl Journal {
    pub fn new(limits: Limits) -> Self {
        Self::new_at(limits, 0)
    }

    /// A journal whose first chunk starts at global offset `start` (what a purge
    /// of everything before it leaves behind).
    pub fn new_at(limits: Limits, start: u64) -> Self {
        let head = MRec::State(MState::default());
        let len = enc::encode(&head).len() as u64;
        Journal {
            chunks: vec![MChunk {
                start,
                recs: vec![head],
                lens: vec![len],
                closing_last: None,
                closed: false,
            }],
            pending_removal: vec![],
            removed: vec![],
            limits,
            boundary_effective: None,
            boundary_latest: None,
        }
    }

    pub fn open(&self) -> &MChunk {
        self.chunks.last().unwrap()
    }

    pub fn end(&self) -> u64 {
        self.open().end()
    }

    /// Journals one accepted record; `state_after` is the log state after the
    /// record has been applied (needed if the chunk fills up).
    pub fn append(&mut self, rec: &MRec, state_after: &MState) -> Placed {
        let len = enc::encode(rec).len() as u64;
        let open = self.chunks.last_mut().unwrap();
        let offset = open.end();
        let chunk_start = open.start;
        open.recs.push(rec.clone());
        open.lens.push(len);
        let full = open.recs.len() >= self.limits.max_records
            || open.size() as usize >= self.limits.max_size;
        if full {
            open.closed = true;
            open.closing_last = state_after.last;
            // rotation: the tail write's sync installs the boundary of the file
            // it is written to (the previous rotation's `last`); the new file's
            // boundary (this rotation's `last`) takes effect at the next sync
            self.boundary_effective = self.boundary_latest;
            self.boundary_latest = state_after.last;
            let start = open.end();
            let head = MRec::State(state_after.clone());
            let hl = enc::encode(&head).len() as u64;
            self.chunks.push(MChunk {
                start,
                recs: vec![head],
                lens: vec![hl],
                closing_last: None,
                closed: false,
            });
        }
        Placed {
            chunk_start,
            offset,
            len,
            rotated: full,
        }
    }

    /// Effect of an accepted, effective purge on chunk retention.
    pub fn on_purge(&mut self, upto: LogId) {
        while self.chunks.len() > 1 {
            if self.chunks[0].closing_last > Some(upto) {
                break;
            }
            let c = self.chunks.remove(0);
            self.pending_removal.push(c.start);
        }
    }

    pub fn on_flush_done(&mut self) {
        let p = std::mem::take(&mut self.pending_removal);
        self.removed.extend(p);
        self.boundary_effective = self.boundary_latest;
    }

    /// Effect of a clean close + open under (possibly) different limits.
    pub fn on_reopen(&mut self, limits: Limits) {
        self.on_flush_done();
        self.limits = limits;
        // The newest chunk is reused as the open chunk; nothing is written.
        // open() installs the `last` after the chunk before it.
        let n = self.chunks.len();
        let b = if n >= 2 { self.chunks[n - 2].closing_last } else { None };
        self.boundary_effective = b;
        self.boundary_latest = b;
    }

    pub fn on_disk_size(&self) -> u64 {
        self.end() - self.chunks[0].start
    }

    /// chunk files expected in the directory once the worker is idle after a
    /// flush
    pub fn files(&self) -> Vec<u64> {
        let mut v: Vec<u64> = self.pending_removal.clone();
        v.extend(self.chunks.iter().map(|c| c.start));
        v.sort();
        v
    }
}
