//! C07 reader harness: two reader threads and a drainer share `&RaftLog`
//! while the flush worker is still processing the queue; every `pread64` and
//! every cache access is a scheduling point; all interleavings.

use std::sync::Arc;
use std::sync::Mutex;
use std::time::Instant;

use raft_log::api::raft_log_writer::RaftLogWriter;
use raft_log::RaftLog;
use serde_json::json;

use crate::model::Op;
use crate::model::RefLog;
use crate::report::Violation;
use crate::sched;
use crate::sched::Dfs;
use crate::sched::FaultPolicy;
use crate::sched::OpGate;
use crate::sched::ThreadKind;
use crate::schedx::shist_short;
use crate::schedx::Machinery;
use crate::schedx::SOp;
use crate::schedx::SchedStats;
use crate::seqx::cfg_to_json;
use crate::sut::open_store;
use crate::sut::read_range;
use crate::sut::Cfg;
use crate::sut::ScratchDir;
use crate::vt::AckLog;
use crate::vt::LogId;
use crate::vt::VT;

const F_PUBLISHED: u32 = 1;
const F_R1_DONE: u32 = 2;
const F_R2_DONE: u32 = 4;
const F_D_DONE: u32 = 8;

#[derive(Clone)]
pub struct ReaderSpec {
    pub prop: String,
    pub hist: Vec<SOp>,
    pub cfg: Cfg,
    pub max_executions: u64,
    /// explore only the schedules within the preemption bound (shapes whose full
    /// space does not fit the tier's budget; the bound is reported)
    pub bounded_only: bool,
}

type Shared = Arc<Mutex<Option<Arc<RaftLog<VT>>>>>;
type Results = Arc<Mutex<Vec<(usize, Result<Vec<(LogId, String)>, String>)>>>;

fn reader(me: usize, shared: Shared, results: Results, done_flag: u32) {
    sched::op_gate("reader-start", OpGate::Flag(F_PUBLISHED), 0);
    let rl = shared.lock().unwrap().clone();
    if let Some(rl) = rl {
        sched::set_extra_bits(sched::R_CACHE_R);
        sched::op_gate("read", OpGate::Always, 0);
        let got = read_range(&rl, 0, u64::MAX);
        sched::set_extra_bits(0);
        results.lock().unwrap().push((me, got));
    }
    sched::set_flag(done_flag);
}

fn drainer(shared: Shared) {
    sched::op_gate("drainer-start", OpGate::Flag(F_PUBLISHED), 0);
    let rl = shared.lock().unwrap().clone();
    if let Some(rl) = rl {
        sched::op_gate("drain", OpGate::Always, sched::R_CACHE);
        rl.drain_cache_evictable();
    }
    sched::set_flag(F_D_DONE);
}

fn caller(spec: ReaderSpec, dir: String, shared: Shared, problems: Arc<Mutex<Vec<String>>>) {
    sched::op_gate("open", OpGate::Always, sched::R_ALL);
    sched::set_extra_bits(sched::R_ALL);
    let rl = open_store(&dir, &spec.cfg);
    sched::set_extra_bits(0);
    let mut rl = match rl {
        Ok(r) => r,
        Err(e) => {
            problems.lock().unwrap().push(format!("open failed: {}", e));
            sched::set_flag(F_PUBLISHED);
            return;
        }
    };
    let inst = sched::current_inst();
    let acks = AckLog::new();
    let mut nflush = 0;
    for op in &spec.hist {
        sched::op_gate(&op.short(), OpGate::Always, 0);
        let r = match op {
            SOp::W(Op::Append(es)) => rl.append(es.clone()).map(|_| ()),
            SOp::W(Op::Truncate(i)) => rl.truncate(*i).map(|_| ()),
            SOp::W(Op::Purge(id)) => rl.purge(*id).map(|_| ()),
            SOp::W(Op::Vote(v)) => rl.save_vote(*v).map(|_| ()),
            SOp::Flush => {
                nflush += 1;
                rl.flush(Some(acks.cb(nflush)))
            }
            _ => Ok(()),
        };
        if let Err(e) = r {
            problems.lock().unwrap().push(format!("{} failed: {}", op.short(), e));
        }
    }
    // hand the store to the readers while the worker may still be busy
    let arc = Arc::new(rl);
    *shared.lock().unwrap() = Some(arc.clone());
    sched::set_flag(F_PUBLISHED);
    sched::op_gate("await-readers", OpGate::Flag(F_R1_DONE), 0);
    sched::op_gate("await-readers", OpGate::Flag(F_R2_DONE), 0);
    sched::op_gate("await-drainer", OpGate::Flag(F_D_DONE), 0);
    *shared.lock().unwrap() = None;
    sched::op_gate("drop", OpGate::Always, sched::R_CHAN | sched::R_LOCK);
    sched::set_extra_bits(sched::R_CHAN | sched::R_LOCK);
    match Arc::try_unwrap(arc) {
        Ok(rl) => drop(rl),
        Err(_) => problems.lock().unwrap().push("store still shared at drop".to_string()),
    }
    sched::mark_sender_dropped(inst);
    sched::set_extra_bits(0);
}

pub fn explore(spec: &ReaderSpec, vios: &mut Vec<Violation>, stats: &mut SchedStats, deadline: Instant) -> Result<(), Machinery> {
    // iterative context bounding: every schedule with at most 1, then at most 2
    // preemptions (small spaces, completed first), then everything. The bounded
    // passes only order the work: the last pass is the full exploration.
    // (the pass with two preemptions is large without sleep sets: thorough tier)
    let bounds: &[usize] = if spec.max_executions > 100_000 { &[1, 2] } else { &[1] };
    for bound in bounds.iter().copied() {
        let mut dfs = Dfs::new(0, FaultPolicy::None);
        dfs.preempt_bound = Some(bound);
        dfs.use_sleep = false;
        let before = vios.len();
        let caps_before = stats.caps_hit;
        explore_with(spec, vios, stats, deadline, dfs)?;
        stats.outcome_add(&format!("reader-pass-preemptions<={}{}", bound, if stats.caps_hit > caps_before { "-capped" } else { "-complete" }));
        if vios.len() > before {
            return Ok(());
        }
    }
    if spec.bounded_only {
        stats.outcome_add("reader-shape-explored-within-the-preemption-bound-only");
        return Ok(());
    }
    explore_with(spec, vios, stats, deadline, Dfs::new(0, FaultPolicy::None))
}

fn schedule_from_json(r: &serde_json::Value) -> Vec<(usize, String)> {
    r["extra"]["schedule"]
        .as_array()
        .or_else(|| r["schedule"].as_array())
        .map(|a| a.iter().filter_map(|x| x.as_str()).filter_map(|s| s.split_once(':').map(|(t, l)| (t.parse().unwrap_or(0), l.to_string()))).collect())
        .unwrap_or_default()
}

/// Re-executes one recorded case.
pub fn replay(r: &serde_json::Value) -> i32 {
    let spec = ReaderSpec {
        prop: "C07".to_string(),
        hist: r["history"].as_array().map(|a| a.iter().map(crate::schedx::sop_from_json).collect()).unwrap_or_default(),
        cfg: crate::seqx::cfg_from_json(&r["cfg"]),
        max_executions: 1,
        bounded_only: false,
    };
    let mut vios = vec![];
    let mut stats = SchedStats::default();
    let dfs = Dfs::replaying(schedule_from_json(r), 0, FaultPolicy::None);
    match explore_with(&spec, &mut vios, &mut stats, Instant::now() + std::time::Duration::from_secs(120), dfs) {
        Err(Machinery(m)) => {
            println!("REPLAY property=C07 could not be replayed on this tree: {}", m);
            2
        }
        Ok(()) => {
            if vios.is_empty() {
                println!("REPLAY property=C07 held for this case ({} steps)", stats.steps);
                0
            } else {
                for v in vios.iter().take(5) {
                    println!("REPLAY property=C07 VIOLATION key={} what={}", v.key, v.what);
                }
                1
            }
        }
    }
}

fn explore_with(spec: &ReaderSpec, vios: &mut Vec<Violation>, stats: &mut SchedStats, deadline: Instant, mut dfs: Dfs) -> Result<(), Machinery> {
    let mut model = RefLog::new();
    for op in &spec.hist {
        if let SOp::W(w) = op {
            model.apply(w);
        }
    }
    let want = model.all();
    stats.histories += 1;
    loop {
        dfs.begin_execution();
        let dir = ScratchDir::new();
        let shared: Shared = Arc::new(Mutex::new(None));
        let results: Results = Arc::new(Mutex::new(vec![]));
        let problems = Arc::new(Mutex::new(vec![]));
        let bodies: Vec<(ThreadKind, sched::ThreadBody)> = vec![
            (ThreadKind::Caller, {
                let (s, d, sh, p) = (spec.clone(), dir.path.clone(), shared.clone(), problems.clone());
                Box::new(move || caller(s, d, sh, p))
            }),
            // (the drainer before the readers: the default schedule of the bounded
            // passes then evicts first, so the readers go to the disk)
            (ThreadKind::Reader, {
                let sh = shared.clone();
                Box::new(move || drainer(sh))
            }),
            (ThreadKind::Reader, {
                let (sh, r) = (shared.clone(), results.clone());
                Box::new(move || reader(1, sh, r, F_R1_DONE))
            }),
            (ThreadKind::Reader, {
                let (sh, r) = (shared.clone(), results.clone());
                Box::new(move || reader(2, sh, r, F_R2_DONE))
            }),
        ];
        let res = sched::run_execution(bodies, &mut dfs);
        if let Some(h) = &res.hung {
            return Err(Machinery(format!("hang: {} | [{}]", h, shist_short(&spec.hist))));
        }
        if let Some(d) = &dfs.divergence {
            return Err(Machinery(format!("nondeterminism while replaying a prefix: {} | [{}]", d, shist_short(&spec.hist))));
        }
        stats.executions += 1;
        stats.steps += res.steps as u64;
        stats.scheduler_states += res.steps as u64;
        let sched_json = json!(dfs.schedule().iter().map(|(t, l)| format!("{}:{}", t, l)).collect::<Vec<_>>());
        let mk = |key: &str, what: String| Violation {
            prop: spec.prop.clone(),
            key: key.to_string(),
            what: format!("{} | history: [{}]; then 2 readers + drainer on the shared store | cfg: {}", what, shist_short(&spec.hist), spec.cfg.short()),
            replay: json!({"engine":"readers","history": spec.hist.iter().map(crate::schedx::sop_to_json).collect::<Vec<_>>(),
                "history_text": shist_short(&spec.hist), "cfg": cfg_to_json(&spec.cfg), "schedule": sched_json}),
        };
        for p in problems.lock().unwrap().iter() {
            vios.push(mk("reader-harness-op-failed", p.clone()));
        }
        let rs = results.lock().unwrap().clone();
        if !dfs.blocked_now && rs.len() != 2 && problems.lock().unwrap().is_empty() {
            vios.push(mk("reader-did-not-finish", format!("{} of 2 readers returned", rs.len())));
        }
        for (who, got) in &rs {
            stats.reads_checked += 1;
            if got.as_ref().ok() != Some(&want) {
                let f3 = crate::seqx::reappended_below_highwater(
                    &spec.hist.iter().filter_map(|o| if let SOp::W(w) = o { Some(w.clone()) } else { None }).collect::<Vec<_>>(),
                );
                let panicked = got.as_ref().err().map(|e| e.contains("PANIC")).unwrap_or(false);
                let key = if panicked {
                    "concurrent-read-panics"
                } else if !f3.is_empty() && got.is_err() {
                    "F3:read-error-on-entry-reappended-below-truncated-id"
                } else {
                    "concurrent-read-fails-or-differs"
                };
                vios.push(mk(key, format!("reader {} got {:?}, model {:?}", who, got, want)));
            }
        }
        if let Some(d) = &res.deadlock {
            vios.push(mk("deadlock", format!("deadlock: {}", d)));
            break;
        }
        if !dfs.next_branch() {
            break;
        }
        if dfs.stats.executions >= spec.max_executions || Instant::now() > deadline {
            stats.caps_hit += 1;
            break;
        }
    }
    stats.complete_executions += dfs.stats.complete;
    stats.sleep_blocked += dfs.stats.sleep_blocked;
    stats.max_schedule_len = stats.max_schedule_len.max(dfs.stats.max_steps);
    Ok(())
}
