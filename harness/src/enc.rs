//! Model-side record type and an encoder written independently of the crate's
//! codec (used to predict journal bytes and as an oracle for C12).

use raft_log::codeq::Decode;
use raft_log::WALRecord;

use crate::vt::LogId;
use crate::vt::Vote;
use crate::vt::VT;

#[derive(Clone, Debug, PartialEq, Eq, Hash, Default, PartialOrd, Ord)]
pub struct MState {
    pub vote: Option<Vote>,
    pub last: Option<LogId>,
    pub committed: Option<LogId>,
    pub purged: Option<LogId>,
    pub user_data: Option<String>,
}

#[derive(Clone, Debug, PartialEq, Eq, Hash)]
pub enum MRec {
    Vote(Vote),
    Append(LogId, String),
    Commit(LogId),
    TruncateAfter(Option<LogId>),
    PurgeUpto(LogId),
    State(MState),
}

impl MRec {
    pub fn kind(&self) -> u32 {
        match self {
            MRec::Vote(_) => 0,
            MRec::Append(..) => 1,
            MRec::Commit(_) => 2,
            MRec::TruncateAfter(_) => 3,
            MRec::PurgeUpto(_) => 4,
            MRec::State(_) => 5,
        }
    }

    pub fn short(&self) -> String {
        match self {
            MRec::Vote(v) => format!("Vote{:?}", v),
            MRec::Append(id, p) => format!("Append{:?}[{}]", id, p.len()),
            MRec::Commit(id) => format!("Commit{:?}", id),
            MRec::TruncateAfter(id) => format!("TruncAfter({:?})", id),
            MRec::PurgeUpto(id) => format!("Purge{:?}", id),
            MRec::State(s) => format!(
                "State(v={:?},l={:?},c={:?},p={:?},u={:?})",
                s.vote, s.last, s.committed, s.purged, s.user_data
            ),
        }
    }
}

fn put_u64(b: &mut Vec<u8>, v: u64) {
    b.extend_from_slice(&v.to_be_bytes());
}
fn put_pair(b: &mut Vec<u8>, v: (u64, u64)) {
    put_u64(b, v.0);
    put_u64(b, v.1);
}
fn put_opt_pair(b: &mut Vec<u8>, v: Option<(u64, u64)>) {
    match v {
        None => b.push(0),
        Some(p) => {
            b.push(1);
            put_pair(b, p);
        }
    }
}
fn put_str(b: &mut Vec<u8>, s: &str) {
    b.extend_from_slice(&(s.len() as u32).to_be_bytes());
    b.extend_from_slice(s.as_bytes());
}
fn put_opt_str(b: &mut Vec<u8>, s: &Option<String>) {
    match s {
        None => b.push(0),
        Some(s) => {
            b.push(1);
            put_str(b, s);
        }
    }
}

/// Body (type tag + payload) without checksum.
pub fn encode_body(r: &MRec) -> Vec<u8> {
    let mut b = Vec::new();
    b.extend_from_slice(&r.kind().to_be_bytes());
    match r {
        MRec::Vote(v) => put_pair(&mut b, *v),
        MRec::Append(id, p) => {
            put_pair(&mut b, *id);
            put_str(&mut b, p);
        }
        MRec::Commit(id) => put_pair(&mut b, *id),
        MRec::TruncateAfter(id) => put_opt_pair(&mut b, *id),
        MRec::PurgeUpto(id) => put_pair(&mut b, *id),
        MRec::State(s) => {
            b.push(1); // version
            put_opt_pair(&mut b, s.vote);
            put_opt_pair(&mut b, s.last);
            put_opt_pair(&mut b, s.committed);
            put_opt_pair(&mut b, s.purged);
            put_opt_str(&mut b, &s.user_data);
        }
    }
    b
}

/// Appends the 8-byte big-endian checksum field (CRC32, zero-extended).
pub fn seal(mut body: Vec<u8>) -> Vec<u8> {
    let crc = crc32fast::hash(&body) as u64;
    body.extend_from_slice(&crc.to_be_bytes());
    body
}

pub fn encode(r: &MRec) -> Vec<u8> {
    seal(encode_body(r))
}

/// Converts a real record into the model representation.
pub fn from_real(r: &WALRecord<VT>) -> MRec {
    match r {
        WALRecord::SaveVote(v) => MRec::Vote(*v),
        WALRecord::Append(id, p) => MRec::Append(*id, p.clone()),
        WALRecord::Commit(id) => MRec::Commit(*id),
        WALRecord::TruncateAfter(id) => MRec::TruncateAfter(*id),
        WALRecord::PurgeUpto(id) => MRec::PurgeUpto(*id),
        WALRecord::State(s) => MRec::State(MState {
            vote: s.vote().cloned(),
            last: s.last().cloned(),
            committed: s.committed().cloned(),
            purged: s.purged().cloned(),
            user_data: s.user_data.clone(),
        }),
    }
}

/// Builds a real record from the model representation. `State` values can
/// only be constructed through the public decoder (the type is not nameable
/// from outside the crate), which is what this does for every kind.
pub fn to_real(r: &MRec) -> WALRecord<VT> {
    let bytes = encode(r);
    WALRecord::<VT>::decode(&bytes[..]).expect("hand-encoded record must decode")
}
